#!/bin/sh
# builds the engine offline and warms the export data of /repo's dependencies
set -e
DIR=$(cd "$(dirname "$0")" && pwd)
export GOFLAGS=-mod=mod GOPROXY=off GOSUMDB=off GOTOOLCHAIN=local
mkdir -p "$DIR/bin" "$DIR/evidence"
(cd "$DIR/symgo" && go build -o "$DIR/bin/symgo" .)
(cd /repo && go list -export -deps ./cache ./server ./compress ./location ./upstream ./config ./store ./util ./log >/dev/null)
echo setup-ok
