#!/bin/sh
# run_seeds.sh: applies every seeded change to /repo in turn, runs the checks named in its
# meta.json (detected_by), undoes it, and writes seeded/RESULTS.md.
cd /verif
OUT=seeded/RESULTS.md
echo "# Seeded changes vs. checks ($(date -u +%Y-%m-%dT%H:%MZ), /repo $(git -C /repo log --format=%h -1))" > $OUT
echo "" >> $OUT
echo "| seed | check | exit | first line |" >> $OUT
echo "|---|---|---|---|" >> $OUT
for d in seeded/C*/; do
  id=$(basename $d)
  patch=$d/patch.diff
  [ -f $d/patch_rebased_onto_fixes.diff ] && patch=$d/patch_rebased_onto_fixes.diff
  checks=$(python3 -c "import json;print(' '.join(json.load(open('$d/meta.json'))['detected_by'][:1]))")
  if ! git -C /repo apply /verif/$patch 2>/dev/null; then echo "| $id | - | patch does not apply | |" >> $OUT; continue; fi
  for c in $checks; do
    timeout 1800 ./check $c > /tmp/seedrun_$id_$c.log 2>&1; code=$?
    line=$(grep -E '^(VIOLATION|INCONCLUSIVE|OK)' /tmp/seedrun_$id_$c.log | head -1 | cut -c1-140)
    echo "| $id | $c | $code | $line |" >> $OUT
  done
  git -C /repo checkout -- .
done
cat $OUT
