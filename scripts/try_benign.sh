#!/bin/sh
# try_benign.sh <patch> [IDs...] : apply a behaviour-preserving change to /repo, run the checks (default: all 20),
# print every check that does not exit 0, undo the change.
P="$1"; shift
REPO="${VERIF_REPO:-/repo}"
IDS="$@"
[ -z "$IDS" ] && IDS="C01 C02 C03 C04 C05 C06 C07 C08 C09 C10 C11 C12 C13 C14 C15 C16 C17 C18 C19 C20"
git -C "$REPO" apply -3 "$P" || { echo "patch does not apply"; exit 3; }
bad=0
for id in $IDS; do
  timeout 1800 /verif/check "$id" > /tmp/benign_$id.log 2>&1; rc=$?
  if [ $rc -ne 0 ]; then bad=$((bad+1)); echo "ALARM check $id exit=$rc: $(grep -E '^(VIOLATION|INCONCLUSIVE)' /tmp/benign_$id.log | head -2 | cut -c1-260)"; fi
done
git -C "$REPO" reset -q --hard HEAD
echo "benign run done: $bad check(s) did not exit 0"
