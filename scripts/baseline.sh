#!/bin/sh
# runs /repo's test suite (guard off: there are no hooks) and compares with the 65 stable tests of BASELINE.json
export GOFLAGS=-mod=mod GOPROXY=off GOSUMDB=off GOTOOLCHAIN=local
cd /repo && go test -json -vet=off -count=1 -timeout 25m ./... > /tmp/baseline.json 2>/dev/null
python3 - <<'PY'
import json
passed=set()
for l in open('/tmp/baseline.json'):
    try: e=json.loads(l)
    except: continue
    if e.get('Action')=='pass' and e.get('Test') and '/' not in e['Test']:
        passed.add(e['Package']+'::'+e['Test'])
base=json.load(open('/root/.vp/BASELINE.json'))['stable_pass']
missing=[t for t in base if t not in passed]
print("baseline stable tests:",len(base),"passing now:",len(base)-len(missing))
for m in missing: print("  MISSING",m)
PY
