#!/bin/sh
# regress_seeds.sh [dir...] : re-runs every stored seed against the first check that is recorded as
# detecting it (meta.json detected_by), on a scratch worktree; prints one line per seed.
cd /verif
export VERIF_REPO=/tmp/repo_rg
git -C /repo worktree add -q --detach $VERIF_REPO HEAD 2>/dev/null
DIRS="$@"; [ -z "$DIRS" ] && DIRS=$(ls -d seeded/C*)
for d in $DIRS; do
  P=/verif/$d/patch.diff; [ -f /verif/$d/patch_rebased_onto_fixes.diff ] && P=/verif/$d/patch_rebased_onto_fixes.diff
  ID=$(python3 -c "import json;print(json.load(open('$d/meta.json'))['detected_by'][0])")
  if ! git -C $VERIF_REPO apply --check $P 2>/dev/null; then
    if git -C $VERIF_REPO apply -3 $P >/dev/null 2>&1; then :; else git -C $VERIF_REPO reset -q --hard HEAD; echo "$(basename $d) $ID: patch no longer applies"; continue; fi
  else
    git -C $VERIF_REPO apply $P
  fi
  timeout 1800 ./check $ID > /tmp/rg.log 2>&1; rc=$?
  echo "$(basename $d) $ID: exit=$rc $(grep -E '^(VIOLATION|INCONCLUSIVE)' /tmp/rg.log | head -1 | cut -c1-140)"
  git -C $VERIF_REPO reset -q --hard HEAD
done
git -C /repo worktree remove --force $VERIF_REPO; git -C /repo worktree prune
