#!/bin/sh
# try_seed.sh <patch> <ID...> : apply a seeded change to /repo, run the named checks, undo it.
P="$1"; shift
REPO="${VERIF_REPO:-/repo}"
git -C "$REPO" apply "$P" || { echo "patch does not apply"; exit 3; }
for id in "$@"; do
  timeout 1800 /verif/check "$id" > /tmp/try_$id.log 2>&1; echo "check $id exit=$? $(grep -c '^VIOLATION' /tmp/try_$id.log) violation line(s): $(grep -E '^(VIOLATION|INCONCLUSIVE)' /tmp/try_$id.log | head -2 | cut -c1-200)"
done
git -C "$REPO" checkout -- .
