#!/bin/sh
# verify_seed.sh <ID> <seed-dir> <demo-dest-relative-path> <go test args...>
# Confirms, in a scratch worktree of /repo HEAD: patch applies, builds, existing tests pass with it
# (the three known offline failures ignored), the demo fails with the patch and passes without.
ID="$1"; SEED="$2"; DEMO_DEST="$3"; shift 3
export GOFLAGS=-mod=mod GOPROXY=off GOSUMDB=off GOTOOLCHAIN=local
WT=$(mktemp -d /tmp/vseed_${ID}_XXXX)
rmdir "$WT"
git -C /repo worktree add -q --detach "$WT" HEAD || exit 3
cleanup() { git -C /repo worktree remove --force "$WT" >/dev/null 2>&1; }
# private TMPDIR: pike's store tests keep a badger database directly in $TMPDIR
export TMPDIR="$WT.tmp"; mkdir -p "$TMPDIR"
cleanup() { git -C /repo worktree remove --force "$WT" >/dev/null 2>&1; rm -rf "$WT.tmp"; }
trap cleanup EXIT
cd "$WT"
git apply "$SEED/patch.diff" || { echo "RESULT $ID patch-does-not-apply"; exit 3; }
go build ./... || { echo "RESULT $ID build-fails"; exit 3; }
go test -vet=off -count=1 ./... 2>&1 | grep -E "^(--- FAIL|FAIL|ok)" > "$WT/.tests_with.txt"
BAD=$(grep -E "^--- FAIL" "$WT/.tests_with.txt" | grep -vE "TestEtcdClient|TestNewMongoStore|TestUpstreamServer|TestNewRedisStore" )
if [ -n "$BAD" ]; then echo "RESULT $ID existing-tests-fail: $BAD"; exit 3; fi
cp "$SEED/demo_test.go" "$WT/$DEMO_DEST"
if go test -vet=off -count=1 "$@" > "$WT/.demo_with.txt" 2>&1; then echo "RESULT $ID demo-passes-with-patch (not a valid seed)"; tail -5 "$WT/.demo_with.txt"; exit 3; fi
WITH=$(grep -E "^(--- FAIL|FAIL|panic)" "$WT/.demo_with.txt" | head -3 | tr '\n' ' ')
git apply -R "$SEED/patch.diff"
if ! go test -vet=off -count=1 "$@" > "$WT/.demo_without.txt" 2>&1; then echo "RESULT $ID demo-fails-without-patch"; tail -8 "$WT/.demo_without.txt"; exit 3; fi
echo "RESULT $ID confirmed: tests pass with patch; demo fails with patch [$WITH]; demo passes without"
