#!/usr/bin/env python3
# regenerates /verif/MANIFEST.json from the table below
import json
SEQ="SSA symbolic execution (go/ssa -> SMT-LIB2) + z3, counterexamples replayed natively"
BMC="bounded model checking of the real SSA under a symbolic scheduler (SMT, z3 QF_BV)"
checks=[
 ("C03","other","Bounded symbolic execution of the real getCacheMaxAge against a reference model written in the harness: every Cache-Control/Age/Set-Cookie byte string within the stated length bounds, plus structured multi-directive values with symbolic case and values, is covered by unsat verdicts.","Trusted: go/ssa, the symgo encoder and its regexp/strconv/http.Header models, z3 4.8.12. Bounds: header lengths, ASCII bytes.",SEQ+", differential oracle"),
 ("C04","other","One-step inductive check over 64-bit clock/lifetime values on the real httpCache.Get/Cacheable/Age (and restore from a store): holds for every value; histories of any length follow from the invariant. Known finding F3 (Age read after the hit decision) is reported, not suppressed beyond its predicate.","Trusted: encoder, z3, the free non-decreasing clock stub replacing cache.nowUnix. Sequential step; concurrency under C01/C20.",SEQ+", inductive step"),
 ("C06","other","Injectivity of the real getKey on two arbitrary requests and shard lookups under an uninterpreted hash (every collision pattern) on the real dispatcher/lru/list code.","Trusted: encoder, z3. Bounds: field lengths <= 2-3 bytes (length-generic code), 2-key histories.",SEQ+", uninterpreted hash"),
 ("C07","other","Inductive step on the hit-for-pass marker for every period and clock value; restore of markers from a store.","Trusted: encoder, z3, clock stub. Concurrent bursts are under the BMC checks.",SEQ+", inductive step"),
 ("C08","other","Write-through/restore code executed symbolically modulo a faithful-store contract; the kill point is a symbolic commit flag per Set.","Partial: badger/redis/mongodb crash consistency and process restart are outside (third-party engines); claim is modulo the store contract stated in the evidence.",SEQ+", store contract stub"),
 ("C09","other","Round trip for all entries within bounds, no panic / no decoded-length allocation for every byte string up to 64 bytes (uninterpreted content), every truncation rejected.","Trusted: encoder, z3; encoding/json and regexp String/Compile as inverse pairs. Known finding F8 (32-bit min length).",SEQ+", uninterpreted byte array"),
 ("C10","other","Every store answer (not-found, error, arbitrary bytes <= 40/60) is a solver variable; the entry must end as a miss or a valid unexpired hit/marker; parking behind a non-existent fetch is reported as a deadlock.","Trusted: encoder, z3. A store call that never returns is outside.",SEQ+", fault values as solver variables"),
 ("C11","other","Full-width bit-vector check of NewDispatcher's shard arithmetic for all sizes >= 1, plus LRU order/bounds on the real groupcache/lru with an uninterpreted hash.","Trusted: encoder, z3. Entry counts only; bytes of memory outside.",SEQ),
 ("C18","other","Sequential purge semantics (named/unnamed, absent key/cache, persisted copies, other keys) on the real code with symbolic keys.","Trusted: encoder, z3, faithful store. Purge racing an in-flight fetch: BMC part.",SEQ),
]
out=[]
for pid,cat,text,note,tech in checks:
    out.append({"property_id":pid,"quick_cmd":f"./check {pid} --tier quick","thorough_cmd":f"./check {pid} --tier thorough","evidence_file":f"evidence/{pid}.json",
       "replay_cmd_template":"./check "+pid+" --replay {path}","engine":"symgo",
       "level_claimed":{"category":cat,"text":text,"design_ref":"DESIGN.md §6 "+pid},"level_note":note,"technique":tech})
reasons={
}
props=[json.loads(l)["id"] for l in open("/verif/properties.jsonl")]
claimed={c["property_id"] for c in out}
na=[{"property_id":p,"reason":reasons.get(p,"check under construction in this session (see DESIGN.md §6); not yet claimed")} for p in props if p not in claimed]
m={"version":1,"setup_cmd":"./setup.sh",
   "hooks":{"guard":"verif","enable":"none needed: harnesses, the nondet runtime and replay shims arrive through overlays (go/packages-style overlay for the encoder, go test -overlay for replay); /repo is never modified by a check","baseline_off_cmd":"cd /repo && GOFLAGS=-mod=mod GOPROXY=off GOSUMDB=off GOTOOLCHAIN=local go test -vet=off -count=1 -timeout 25m ./...","source_commits":[],"add_only":True},
   "engines":[{"name":"symgo","path":"symgo/","serves_properties":sorted(claimed),"kind_free_text":"go/ssa symbolic executor of /repo's current source emitting SMT-LIB2 for z3; counterexamples replayed natively with go test -overlay"}],
   "checks":out,
   "notes":"Exit codes: 0 held within bounds; 1 + VIOLATION line (replayed against the real build); 2 + INCONCLUSIVE line (unsupported construct, solver unknown, vacuous harness, non-reproducing counterexample) - never a pass.",
   "not_applicable":na}
json.dump(m,open("/verif/MANIFEST.json","w"),indent=1)
print("claimed",sorted(claimed))
