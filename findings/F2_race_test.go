package cache

// Native demonstration of finding F2 on the tree before the fix (commit "fix: waiters take the
// fetch result from the channel"): a waiter re-read hc.status / hc.response without the entry lock
// after being woken; a later epoch's locked writes are unordered with those reads.  Place this file
// at cache/zz_f2_test.go of the pre-fix tree and run
//   go test -race -vet=off -count=1 -run TestF2WaiterRereadRaces ./cache/
// The race detector reports the read in (*httpCache).Get against the write in (*httpCache).get.
// The schedule is the one found by the BMC check (replays/C01 ... trace.txt): F fetches, W parks,
// F stores with lifetime 1 s and wakes W, the entry expires, C's Get() resets the entry.

import (
	"sync"
	"testing"
	"time"
)

func TestF2WaiterRereadRaces(t *testing.T) {
	hc := NewHTTPCache()
	status, _ := hc.Get() // F becomes the fetcher
	if status != StatusFetching {
		t.Fatal("expected fetching")
	}
	var wg sync.WaitGroup
	wg.Add(2)
	go func() { // W parks behind F
		defer wg.Done()
		hc.Get()
	}()
	go func() { // C arrives after the lifetime has lapsed; it never synchronises with W
		defer wg.Done()
		time.Sleep(2500 * time.Millisecond)
		hc.Get()
	}()
	time.Sleep(100 * time.Millisecond)
	hc.Cacheable(&HTTPResponse{}, 1) // lifetime 1 s; wakes W
	wg.Wait()
}
