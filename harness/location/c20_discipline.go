//go:build verif_harness

package location

// C20 (lock discipline, sequential) — the published location list is only read and replaced with the
// registry's mutex held.
func Harness_C20_locations_discipline() {
	ls := NewLocations(Location{Name: "a"})
	verifWatchLock(ls, ls.mutex, "mutex")
	ls.Get("h", "/", "a")
	ls.Set([]Location{{Name: "b", Hosts: []string{"h"}}, {Name: "c"}})
	ls.GetLocations()
	got := ls.Get("h", "/", "b", "c")
	verifAssert("C20.locations-only-under-its-lock", verifUnlockedAccesses() == 0)
	verifAssert("C20.locations-set-applied", got != nil && got.Name == "b")
	verifReach("C20.locations-discipline.end")
}
