//go:build verif_harness

package location

// C20 (lock discipline, sequential) — the published location list is only read and replaced with the
// registry's mutex held.
func Harness_C20_locations_discipline() {
	ls := NewLocations(Location{Name: "a"})
	verifWatchLock(ls, ls.mutex, "mutex")
	ls.Get("h", "/", "a")
	ls.Set([]Location{{Name: "b", Hosts: []string{"h"}}, {Name: "c"}})
	ls.GetLocations()
	got := ls.Get("h", "/", "b", "c")
	verifAssert("C20.locations-only-under-its-lock", verifUnlockedAccesses() == 0)
	verifAssert("C20.locations-set-applied", got != nil && got.Name == "b")
	verifReach("C20.locations-discipline.end")
}

// C14 / C20 — a reload publishes a finished list: requests read the list after the getter released
// the lock, so the list that `Set` makes visible is already sorted by specificity and is never written
// again (a publish-then-sort would let a request racing the reload be routed by an unsorted list).
// The engine freezes the list object at the moment it is stored into the registry.
func Harness_C14_set_publishes_sorted() {
	ls := NewLocations()
	verifFreezeWhenStored(&ls.locations)
	// configuration order: least specific first
	ls.Set([]Location{
		{Name: "any"},
		{Name: "host", Hosts: []string{"h"}},
		{Name: "prefix", Prefixes: []string{"/p"}},
		{Name: "both", Hosts: []string{"h"}, Prefixes: []string{"/p"}},
	})
	verifAssert("C14.published-location-list-is-never-written-again", !verifFrozenWrite())
	got := ls.GetLocations()
	verifAssert("C14.published-list-is-sorted-by-specificity", len(got) == 4 && got[0].Name == "both" && got[1].Name == "prefix" && got[2].Name == "host" && got[3].Name == "any")
	verifReach("C14.set-publishes.end")
}
