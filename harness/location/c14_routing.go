//go:build verif_harness

package location

// C14 — routing: Match against an oracle on symbolic hosts/prefixes/requests, and selection of a
// location of the most specific class among the server's own locations.

func c14ASCII(s string) {
	for i := 0; i < len(s); i++ {
		verifAssume(s[i] < 0x80)
	}
}

func c14HasPrefix(s, p string) bool {
	if len(p) > len(s) {
		return false
	}
	ok := true
	for i := 0; i < len(p); i++ {
		ok = verifAnd(ok, s[i] == p[i])
	}
	return ok
}

// one location with 0..2 hosts and 0..2 prefixes (symbolic strings), symbolic request host / URI
func Harness_C14_match() {
	var hosts, prefixes []string
	t := verifTier() // thorough: one byte more on every string
	nh := verifChoice("nHosts", 3)
	for i := 0; i < nh; i++ {
		hosts = append(hosts, verifString("host", 2+t))
	}
	np := verifChoice("nPrefixes", 3)
	for i := 0; i < np; i++ {
		prefixes = append(prefixes, verifString("prefix", 2+t))
	}
	l := &Location{Name: "l", Hosts: hosts, Prefixes: prefixes}
	reqHost := verifString("reqHost", 3+t)
	reqURI := verifString("reqURI", 3+t)
	got := l.Match(reqHost, reqURI)
	hostOK := len(hosts) == 0
	for _, h := range hosts {
		hostOK = verifOr(hostOK, h == reqHost)
	}
	prefixOK := len(prefixes) == 0
	for _, p := range prefixes {
		prefixOK = verifOr(prefixOK, c14HasPrefix(reqURI, p))
	}
	verifAssert("C14.match-iff-host-listed-and-prefix-matches", got == verifAnd(hostOK, prefixOK))
	class := 8
	if len(prefixes) != 0 {
		class -= 4
	}
	if len(hosts) != 0 {
		class -= 2
	}
	verifAssert("C14.class", l.getPriority() == class)
	verifReach("C14.match.end")
}

func c14Class(l *Location) int {
	c := 8
	if len(l.Prefixes) != 0 {
		c -= 4
	}
	if len(l.Hosts) != 0 {
		c -= 2
	}
	return c
}

func c14Matches(l *Location, host, uri string, names []string) bool {
	named := false
	for _, n := range names {
		if n == l.Name {
			named = true
		}
	}
	if !named {
		return false
	}
	if len(l.Hosts) != 0 {
		ok := false
		for _, h := range l.Hosts {
			if h == host {
				ok = true
			}
		}
		if !ok {
			return false
		}
	}
	if len(l.Prefixes) != 0 {
		ok := false
		for _, p := range l.Prefixes {
			if len(uri) >= len(p) && uri[:len(p)] == p {
				ok = true
			}
		}
		if !ok {
			return false
		}
	}
	return true
}

// three locations over a small concrete universe, in every configuration order
func Harness_C14_select() {
	names := []string{"a", "b"}
	locs := make([]Location, 3)
	for i := range locs {
		locs[i].Name = names[verifChoice("name", 2)]
		if verifBool("hasHost") {
			locs[i].Hosts = []string{"h1"}
		}
		if verifBool("hasPrefix") {
			locs[i].Prefixes = []string{"/a"}
		}
		locs[i].Upstream = "u"
	}
	// the server's own list: a subset, everything, nothing, a name that does not exist (a removed
	// location), repeated names — also lists exactly as long as the global list without being it
	var serverLocations []string
	switch verifChoice("serverNames", 7) {
	case 0:
		serverLocations = []string{"a"}
	case 1:
		serverLocations = []string{"b"}
	case 2:
		serverLocations = []string{"a", "b"}
	case 3:
		serverLocations = []string{"a", "a", "a"}
	case 4:
		serverLocations = []string{"b", "removed", "gone"}
	case 5:
		serverLocations = []string{"removed"}
	default:
		serverLocations = nil
	}
	host := []string{"h1", "h2"}[verifChoice("reqHost", 2)]
	uri := []string{"/a/x", "/b"}[verifChoice("reqURI", 2)]
	ls := NewLocations(locs...)
	got := ls.Get(host, uri, serverLocations...)
	best := 99
	any := false
	for i := range locs {
		if c14Matches(&locs[i], host, uri, serverLocations) {
			any = true
			if c := c14Class(&locs[i]); c < best {
				best = c
			}
		}
	}
	if !any {
		verifAssert("C14.none-matches-gives-nil", got == nil)
		verifReach("C14.select.none")
		return
	}
	verifReach("C14.select.some")
	verifAssert("C14.some-matches-gives-location", got != nil)
	verifAssert("C14.result-is-own-matching-location", c14Matches(got, host, uri, serverLocations))
	verifAssert("C14.result-of-best-class", c14Class(got) == best)
}
