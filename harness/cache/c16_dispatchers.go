//go:build verif_harness

package cache

// C16 (caches) — surviving caches keep their dispatcher object (cached entries are retained),
// removed ones are gone, new ones exist.
func Harness_C16_dispatchers_reset() {
	names := []string{"a", "b"}
	var cfg1, cfg2 []DispatcherOption
	for _, n := range names {
		if verifBool("cfg1.has." + n) {
			cfg1 = append(cfg1, DispatcherOption{Name: n, Size: 8})
		}
		if verifBool("cfg2.has." + n) {
			cfg2 = append(cfg2, DispatcherOption{Name: n, Size: 16})
		}
	}
	ds := NewDispatchers(cfg1)
	before := map[string]*dispatcher{"a": ds.Get("a"), "b": ds.Get("b")}
	// while the update is applied (observed after every change of the registry's sync.Map): a cache that
	// stays configured is found, as the same dispatcher, at every moment — requests keep being served
	// and cached entries are retained throughout, not only at the end
	in2 := func(n string) bool {
		for _, o := range cfg2 {
			if o.Name == n {
				return true
			}
		}
		return false
	}
	lost := 0
	verifOnSyncMapWrite(func() {
		for _, n := range names {
			if before[n] != nil && in2(n) && ds.Get(n) != before[n] {
				lost++
			}
		}
	})
	ds.Reset(cfg2)
	verifOnSyncMapWrite(nil)
	verifAssert("C16.caches.survivor-available-throughout-reset", lost == 0)
	for _, n := range names {
		in2 := false
		for _, o := range cfg2 {
			if o.Name == n {
				in2 = true
			}
		}
		after := ds.Get(n)
		if !in2 {
			verifAssert("C16.caches.removed-gone", after == nil)
		} else if before[n] != nil {
			verifAssert("C16.caches.survivor-retained", after == before[n])
		} else {
			verifAssert("C16.caches.new-exists", after != nil)
		}
	}
	verifReach("C16.caches.end")
}
