//go:build verif_harness

package cache

// C16 (caches) — surviving caches keep their dispatcher object (cached entries are retained),
// removed ones are gone, new ones exist.
func Harness_C16_dispatchers_reset() {
	names := []string{"a", "b"}
	var cfg1, cfg2 []DispatcherOption
	for _, n := range names {
		if verifBool("cfg1.has." + n) {
			cfg1 = append(cfg1, DispatcherOption{Name: n, Size: 8})
		}
		if verifBool("cfg2.has." + n) {
			cfg2 = append(cfg2, DispatcherOption{Name: n, Size: 16})
		}
	}
	ds := NewDispatchers(cfg1)
	before := map[string]*dispatcher{"a": ds.Get("a"), "b": ds.Get("b")}
	ds.Reset(cfg2)
	for _, n := range names {
		in2 := false
		for _, o := range cfg2 {
			if o.Name == n {
				in2 = true
			}
		}
		after := ds.Get(n)
		if !in2 {
			verifAssert("C16.caches.removed-gone", after == nil)
		} else if before[n] != nil {
			verifAssert("C16.caches.survivor-retained", after == before[n])
		} else {
			verifAssert("C16.caches.new-exists", after != nil)
		}
	}
	verifReach("C16.caches.end")
}
