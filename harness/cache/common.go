//go:build verif_harness

package cache

// Shared stubs for the cache-package harnesses.

// ghostClock is the last value returned by the clock stub; ghostClockReads counts reads.
var ghostClock int64
var ghostClockReads int

// upper bound of the clock stub (BMC harnesses use a small range: only the order of clock values and
// lifetimes matters there; the full 64-bit range is covered by the sequential C04/C07 harnesses)
var ghostClockMax int64 = 1 << 62
var ghostNoReadCount bool

// The wall clock is an arbitrary non-decreasing value at every read ("free" clock model):
// 1 <= now < 2^62.  A clock that steps backwards is outside the claim.
//
//verif:hook github.com/vicanso/pike/cache.nowUnix
func verifHook_nowUnix() int64 {
	n := verifInt64("now")
	verifAssume(n >= ghostClock)
	verifAssume(n >= 1)
	verifAssume(n < ghostClockMax)
	ghostClock = n
	if !ghostNoReadCount {
		ghostClockReads++
	}
	return n
}
