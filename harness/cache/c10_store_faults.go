//go:build verif_harness

package cache

// C10 — whatever the store answers, one Get() on a fresh entry leaves the entry in a good state:
// a miss (this request fetches), or a valid unexpired hit / hit-for-pass marker.  Never parked behind
// a fetch nobody performs, never a hit without a response, never immortal, never a status outside
// the enum, and no partial state after a failed read or decode.

func c10Good(hc *httpCache, status Status, resp *HTTPResponse, now int64) bool {
	fetching := verifAnd(status == StatusFetching, verifAnd(hc.status == StatusFetching, resp == nil))
	live := verifAnd(hc.expiredAt != 0, hc.expiredAt >= now)
	hit := verifAnd(status == StatusHit, verifAnd(hc.status == StatusHit, verifAnd(resp != nil, verifAnd(resp == hc.response, live))))
	pass := verifAnd(status == StatusHitForPass, verifAnd(hc.status == StatusHitForPass, verifAnd(resp == nil, live)))
	return verifOr(fetching, verifOr(hit, pass))
}

func Harness_C10_get_faulty_store() {
	st := &faultyStore{maxRecord: 40 + 20*verifTier()}
	hc := NewHTTPStoreCache([]byte("GET h /"), st)
	status, resp := hc.Get() // blocks forever => reported as no-deadlock
	now := ghostClock
	verifAssert("C10.get-leaves-good-state", c10Good(hc, status, resp, now))
	if status == StatusFetching {
		verifReach("C10.miss")
		// a miss leaves no partial state from the failed read/decode behind
		verifAssert("C10.miss-is-clean", hc.expiredAt == 0 && (st.lastGet == 3 || (hc.response == nil && hc.createdAt == 0)))
		// the fetcher's completion works whatever Set answers, and later requests are served from memory
		r := &HTTPResponse{}
		hc.Cacheable(r, 10)
		verifAssert("C10.cacheable-survives-set-fault", hc.status == StatusHit && hc.response == r && !verifLockHeld(hc.mu))
		s2, r2 := hc.Get()
		verifAssert("C10.memory-still-serves", (s2 == StatusHit && r2 == r) || ghostClock > hc.createdAt+10)
	} else {
		verifReach("C10.restored")
	}
}

func Harness_C10_hitforpass_set_fault() {
	st := &faultyStore{maxRecord: 24}
	hc := NewHTTPStoreCache([]byte("GET h /"), st)
	hc.status = StatusFetching
	hfp := verifInt("hitForPass")
	verifAssume(hfp < 1<<40)
	before := ghostClock
	hc.HitForPass(hfp)
	ttl := int64(hfp)
	if hfp <= 0 {
		ttl = 300
	}
	verifAssert("C10.hitforpass-survives-set-fault", hc.status == StatusHitForPass && hc.expiredAt-ttl >= before && hc.expiredAt-ttl <= ghostClock && !verifLockHeld(hc.mu))
	verifReach("C10.hfp.end")
}

// purge with a failing Delete still detaches the entry
func Harness_C10_purge_delete_fault() {
	st := &faultyStore{maxRecord: 24}
	d := NewDispatcher(DispatcherOption{Name: "c", Size: 2})
	d.store = st
	k := []byte("GET h /")
	e := d.GetHTTPCache(k)
	d.RemoveHTTPCache(k)
	verifAssert("C10.purge-calls-delete", st.deletes >= 1)
	e2 := d.GetHTTPCache(k)
	verifAssert("C10.purge-detaches-despite-fault", e2 != e)
	verifReach("C10.purge.end")
}
