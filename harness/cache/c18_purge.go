//go:build verif_harness

package cache

// C18 — purge (sequential part): named / unnamed, present / absent keys and caches,
// with and without a store, other keys untouched.

func Harness_C18_purge() {
	withStore := verifBool("withStore")
	stA, stB := &faithfulStore{}, &faithfulStore{}
	ds := NewDispatchers([]DispatcherOption{{Name: "a", Size: 2}, {Name: "b", Size: 2}})
	da, db := ds.Get("a"), ds.Get("b")
	verifAssume(da != nil && db != nil)
	if withStore {
		da.store = stA
		db.store = stB
	}
	k := verifBytes("k", 2)
	verifAssume(len(k) > 0)
	// populate: k cached (hit) in both caches
	ea := da.GetHTTPCache(k)
	eb := db.GetHTTPCache(k)
	ea.Get()
	ea.Cacheable(&HTTPResponse{}, 100)
	eb.Get()
	eb.Cacheable(&HTTPResponse{}, 100)

	switch verifChoice("purge", 4) {
	case 0: // named purge of a present key
		ds.RemoveHTTPCache("a", k)
		na := da.GetHTTPCache(k)
		verifAssert("C18.named.fresh-entry", na != ea)
		s, _ := na.Get()
		verifAssert("C18.named.next-request-goes-upstream", s == StatusFetching)
		verifAssert("C18.named.other-cache-untouched", db.GetHTTPCache(k) == eb)
		if withStore {
			verifAssert("C18.named.persisted-copy-gone", !stA.has && stB.has)
		}
		verifReach("C18.named")
	case 1: // unnamed purge clears the key in every cache
		ds.RemoveHTTPCache("", k)
		na, nb := da.GetHTTPCache(k), db.GetHTTPCache(k)
		verifAssert("C18.unnamed.fresh-entries", na != ea && nb != eb)
		sa, _ := na.Get()
		sb, _ := nb.Get()
		verifAssert("C18.unnamed.next-requests-go-upstream", sa == StatusFetching && sb == StatusFetching)
		if withStore {
			verifAssert("C18.unnamed.persisted-copies-gone", !stA.has && !stB.has)
		}
		verifReach("C18.unnamed")
	case 2: // purge of a cache that does not exist: no-op
		ds.RemoveHTTPCache("nope", k)
		verifAssert("C18.absent-cache-noop", da.GetHTTPCache(k) == ea && db.GetHTTPCache(k) == eb && stA.deletes == 0 && stB.deletes == 0)
		verifReach("C18.absent-cache")
	case 3: // purge of an absent key: resident entries stay
		absent := []byte("zzz")
		ds.RemoveHTTPCache("a", absent)
		verifAssert("C18.absent-key-noop", db.GetHTTPCache(k) == eb && (da.GetHTTPCache(k) == ea))
		verifReach("C18.absent-key")
	}
}

// purge leaves other keys' entries in place (checked before anything is re-created)
func Harness_C18_others_untouched() {
	d := NewDispatcher(DispatcherOption{Name: "c", Size: 16}) // 8 zones x 2 entries
	k := verifBytes("k", 2)
	other := verifBytes("other", 2)
	verifAssume(len(k) > 0 && len(other) > 0)
	verifAssume(!c06KeyEq(k, other))
	ek := d.GetHTTPCache(k)
	eo := d.GetHTTPCache(other)
	d.RemoveHTTPCache(k)
	verifAssert("C18.other-key-same-entry", d.GetHTTPCache(other) == eo)
	verifAssert("C18.purged-key-new-entry", d.GetHTTPCache(k) != ek)
	verifAssert("C18.no-write-after-key-cast", !verifFrozenWrite())
	verifReach("C18.others.end")
}

// A purge that completes while a fetch for the key is in flight (the fetcher holds the detached
// entry): the purge takes only the shard lock, leaves the detached entry untouched (its waiters are
// still released by its fetcher: BMC, C02), and later requests get a fresh entry.  With a store the
// fetcher's write-through happens after the purge's Delete.
func Harness_C18_purge_during_fetch() {
	withStore := verifBool("withStore")
	st := &faithfulStore{}
	d := NewDispatcher(DispatcherOption{Name: "c", Size: 16})
	if withStore {
		d.store = st
	}
	k := []byte("GET h /a")
	e := d.GetHTTPCache(k)
	s0, _ := e.Get()
	verifAssume(s0 == StatusFetching)
	// a second request registers as a waiter (the critical section of Get(), without parking)
	e.mu.Lock()
	_, done, _ := e.get(ghostClock)
	e.mu.Unlock()
	verifAssume(done != nil)
	d.RemoveHTTPCache(k) // must not block: a blocked path is reported as no-deadlock
	verifAssert("C18.racing.purge-leaves-detached-entry-untouched", e.status == StatusFetching && verifChanSliceLen(e) == 1 && !verifLockHeld(e.mu))
	e2 := d.GetHTTPCache(k)
	verifAssert("C18.racing.later-requests-get-a-fresh-entry", e2 != e && e2.status == StatusUnknown)
	// the fetcher finishes on the detached entry (its waiter list is emptied here so that the
	// sequential run does not park; the hand-off itself is decided by the BMC systems)
	verifChanSliceClear(e)
	e.Cacheable(&HTTPResponse{}, 100)
	s2, _ := e2.Get()
	// F11 (fixed in f82aea6: the purge detaches the entry from the store): with a store, the
	// write-through of the in-flight fetch used to re-create the persisted copy after the purge had
	// deleted it, and the fresh entry restored it.  A fixed entry suppresses nothing.
	verifAssertKF("C18.racing.next-request-after-purge-goes-upstream", s2 == StatusFetching, "F11", withStore)
	verifReach("C18.racing.end")
}

// racingStore: a faithful store whose Delete gives a concurrent request for the same key the chance
// to run at the two points a real store call exposes (just before and just after the record is
// removed).  The request runs there only when the shard lock is free: with the lock held a real
// request would be blocked in GetHTTPCache until the purge returns, which is the "after" case below.
type racingStore struct {
	faithfulStore
	race func(point int)
}

func (s *racingStore) Delete(key []byte) error {
	if s.race != nil {
		s.race(0)
	}
	err := s.faithfulStore.Delete(key)
	if s.race != nil {
		s.race(1)
	}
	return err
}

// A request for the key that races a purge of a persisted entry (sequentialised: the request is
// placed at each point where the purge leaves the shard unlocked around its store call).  After the
// purge has returned, the key must not be answered from the purged entry: the entry found by the
// next request is either a fresh one that goes upstream (fetching) or the one that the racing
// request is already fetching.
func Harness_C18_purge_racing_request() {
	st := &racingStore{}
	d := NewDispatcher(DispatcherOption{Name: "c", Size: 16})
	d.store = st
	k := []byte("GET h /a")
	e := d.GetHTTPCache(k)
	s0, _ := e.Get()
	verifAssume(s0 == StatusFetching)
	e.Cacheable(&HTTPResponse{}, 100)
	verifAssume(st.has)
	at := verifChoice("raceAt", 3) // 0, 1: inside the store's Delete (before / after removal); 2: none
	raced := false
	st.race = func(point int) {
		if point != at || raced || verifLockHeld(d.getLRU(k).mu) {
			return
		}
		raced = true
		r := d.GetHTTPCache(k)
		r.mu.Lock()
		r.get(ghostClock)
		r.mu.Unlock()
		verifReach("C18.race.request-ran-inside-purge")
	}
	d.RemoveHTTPCache(k)
	st.race = nil
	verifAssert("C18.race.persisted-copy-gone", !st.has)
	n := d.GetHTTPCache(k)
	n.mu.Lock()
	s, _, _ := n.get(ghostClock)
	n.mu.Unlock()
	verifAssert("C18.race.next-request-after-purge-not-served-from-purged-entry", s == StatusFetching && n != e)
	verifReach("C18.race.end")
}
