//go:build verif_harness

package cache

// C18 — purge (sequential part): named / unnamed, present / absent keys and caches,
// with and without a store, other keys untouched.

func Harness_C18_purge() {
	withStore := verifBool("withStore")
	stA, stB := &faithfulStore{}, &faithfulStore{}
	ds := NewDispatchers([]DispatcherOption{{Name: "a", Size: 2}, {Name: "b", Size: 2}})
	da, db := ds.Get("a"), ds.Get("b")
	verifAssume(da != nil && db != nil)
	if withStore {
		da.store = stA
		db.store = stB
	}
	k := verifBytes("k", 2)
	verifAssume(len(k) > 0)
	// populate: k cached (hit) in both caches
	ea := da.GetHTTPCache(k)
	eb := db.GetHTTPCache(k)
	ea.Get()
	ea.Cacheable(&HTTPResponse{}, 100)
	eb.Get()
	eb.Cacheable(&HTTPResponse{}, 100)

	switch verifChoice("purge", 4) {
	case 0: // named purge of a present key
		ds.RemoveHTTPCache("a", k)
		na := da.GetHTTPCache(k)
		verifAssert("C18.named.fresh-entry", na != ea)
		s, _ := na.Get()
		verifAssert("C18.named.next-request-goes-upstream", s == StatusFetching)
		verifAssert("C18.named.other-cache-untouched", db.GetHTTPCache(k) == eb)
		if withStore {
			verifAssert("C18.named.persisted-copy-gone", !stA.has && stA.deletes == 1 && stB.has)
		}
		verifReach("C18.named")
	case 1: // unnamed purge clears the key in every cache
		ds.RemoveHTTPCache("", k)
		na, nb := da.GetHTTPCache(k), db.GetHTTPCache(k)
		verifAssert("C18.unnamed.fresh-entries", na != ea && nb != eb)
		sa, _ := na.Get()
		sb, _ := nb.Get()
		verifAssert("C18.unnamed.next-requests-go-upstream", sa == StatusFetching && sb == StatusFetching)
		if withStore {
			verifAssert("C18.unnamed.persisted-copies-gone", !stA.has && !stB.has)
		}
		verifReach("C18.unnamed")
	case 2: // purge of a cache that does not exist: no-op
		ds.RemoveHTTPCache("nope", k)
		verifAssert("C18.absent-cache-noop", da.GetHTTPCache(k) == ea && db.GetHTTPCache(k) == eb && stA.deletes == 0 && stB.deletes == 0)
		verifReach("C18.absent-cache")
	case 3: // purge of an absent key: resident entries stay
		absent := []byte("zzz")
		ds.RemoveHTTPCache("a", absent)
		verifAssert("C18.absent-key-noop", db.GetHTTPCache(k) == eb && (da.GetHTTPCache(k) == ea))
		verifReach("C18.absent-key")
	}
}

// purge leaves other keys' entries in place (checked before anything is re-created)
func Harness_C18_others_untouched() {
	d := NewDispatcher(DispatcherOption{Name: "c", Size: 16}) // 8 zones x 2 entries
	k := verifBytes("k", 2)
	other := verifBytes("other", 2)
	verifAssume(len(k) > 0 && len(other) > 0)
	verifAssume(!c06KeyEq(k, other))
	ek := d.GetHTTPCache(k)
	eo := d.GetHTTPCache(other)
	d.RemoveHTTPCache(k)
	verifAssert("C18.other-key-same-entry", d.GetHTTPCache(other) == eo)
	verifAssert("C18.purged-key-new-entry", d.GetHTTPCache(k) != ek)
	verifAssert("C18.no-write-after-key-cast", !verifFrozenWrite())
	verifReach("C18.others.end")
}
