//go:build verif_harness

package cache

import (
	"net/http"
	"strings"

	"github.com/vicanso/pike/compress"
)

// C13 / C05 — content-encoding negotiation against the documented decision table, and
// decoded-body equality, modulo the codec contracts of harness/compress/codec_stubs.go.
// Body lengths, the minimum compress length and the encoded lengths are symbolic.

var c13Accepts = []string{"", "gzip", "br", "gzip, br", "br, gzip", "deflate", "identity", "gzip, deflate", "deflate, br", "lz4, zst"}

func c13SameBytes(a, b []byte) bool {
	if len(a) == 0 && len(b) == 0 {
		return true
	}
	return verifSameBacking(a, b) && len(a) == len(b)
}

// decoded: what the client gets after decoding per the returned Content-Encoding
func c13Decoded(encoding string, body []byte) ([]byte, bool) {
	if encoding == "" {
		return body, true
	}
	orig, kind := compress.VerifOriginalOf(body)
	return orig, kind == encoding
}

func c13Response() (*HTTPResponse, []byte) {
	return c13ResponseN(7)
}

// c13ResponseN: nStored = 3 restricts to what NewHTTPResponse produces (exactly one variant)
func c13ResponseN(nStored int) (*HTTPResponse, []byte) {
	compress.VerifCodecStubs = true
	orig := verifBytesSym("body", 8+24*verifTier())
	resp := &HTTPResponse{StatusCode: 200, CompressMinLength: verifInt("minLength"), CompressSrv: "srv"}
	verifAssume(resp.CompressMinLength >= 0)
	if verifBool("compressibleType") {
		resp.Header = http.Header{"Content-Type": {"text/html"}}
	} else {
		resp.Header = http.Header{"Content-Type": {"image/png"}}
	}
	// which variants are stored: any non-empty subset of raw / gzip / br (an empty original body has only raw)
	switch verifChoice("stored", nStored) {
	case 0:
		resp.RawBody = orig
	case 1:
		verifAssume(len(orig) > 0)
		resp.GzipBody = compress.VerifEncode("gzip", orig, 0)
	case 2:
		verifAssume(len(orig) > 0)
		resp.BrBody = compress.VerifEncode("br", orig, 0)
	case 3:
		verifAssume(len(orig) > 0)
		resp.GzipBody = compress.VerifEncode("gzip", orig, 0)
		resp.BrBody = compress.VerifEncode("br", orig, 0)
	case 4:
		verifAssume(len(orig) > 0)
		resp.RawBody = orig
		resp.GzipBody = compress.VerifEncode("gzip", orig, 0)
	case 5:
		verifAssume(len(orig) > 0)
		resp.RawBody = orig
		resp.BrBody = compress.VerifEncode("br", orig, 0)
	case 6:
		verifAssume(len(orig) > 0)
		resp.RawBody = orig
		resp.GzipBody = compress.VerifEncode("gzip", orig, 0)
		resp.BrBody = compress.VerifEncode("br", orig, 0)
	}
	return resp, orig
}

func c13Compressible(resp *HTTPResponse) bool {
	over := verifOr(len(resp.RawBody) > resp.CompressMinLength, verifOr(len(resp.GzipBody) > resp.CompressMinLength, len(resp.BrBody) > resp.CompressMinLength))
	return verifAnd(over, resp.Header.Get("Content-Type") == "text/html")
}

func Harness_C13_table() {
	resp, orig := c13Response()
	accept := c13Accepts[verifChoice("accept", len(c13Accepts))]
	acceptBr := strings.Contains(accept, "br")
	acceptGzip := strings.Contains(accept, "gzip")
	hadGzip, hadBr := len(resp.GzipBody) != 0, len(resp.BrBody) != 0
	gz0, br0, raw0 := resp.GzipBody, resp.BrBody, resp.RawBody
	compressible := c13Compressible(resp)
	compress.VerifEncodeCalls = 0

	encoding, body, err := resp.getBodyByAcceptEncoding(accept)
	verifAssert("C13.no-error", err == nil)

	// serving never alters the stored entry
	verifAssert("C05.serving-does-not-mutate", c13SameBytes(resp.GzipBody, gz0) && c13SameBytes(resp.BrBody, br0) && c13SameBytes(resp.RawBody, raw0))
	// the encoding is one the client accepts, or identity
	verifAssert("C05.encoding-accepted", encoding == "" || (encoding == "br" && acceptBr) || (encoding == "gzip" && acceptGzip))
	// decoded body is the upstream's body
	dec, ok := c13Decoded(encoding, body)
	verifAssert("C05.decoded-body-identical", ok && c13SameBytes(dec, orig))

	// decision table
	switch {
	case acceptBr && hadBr:
		verifReach("C13.row1-stored-br")
		verifAssert("C13.stored-br-used", encoding == "br" && c13SameBytes(body, br0) && compress.VerifEncodeCalls == 0)
	case acceptGzip && hadGzip:
		verifReach("C13.row2-stored-gzip")
		verifAssert("C13.stored-gzip-used", encoding == "gzip" && c13SameBytes(body, gz0) && compress.VerifEncodeCalls == 0)
	default:
		if !acceptBr && !acceptGzip {
			verifAssert("C13.accept-neither-gets-identity", encoding == "" && compress.VerifEncodeCalls == 0)
		}
		want := verifIteInt(compressible, verifIteInt(acceptBr, 2, verifIteInt(acceptGzip, 1, 0)), 0)
		got := 0
		if encoding == "gzip" {
			got = 1
		} else if encoding == "br" {
			got = 2
		}
		verifReach("C13.row3to6")
		verifAssert("C13.small-or-filtered-identity-else-br-then-gzip", got == want)
		verifAssert("C13.at-most-one-encode", compress.VerifEncodeCalls == verifIteInt(want > 0, 1, 0))
	}
}

// Cacheable compressible responses are compressed once when stored, with the best-compression
// profile, and never again per request.
func Harness_C13_cacheable() {
	resp, orig := c13ResponseN(3)
	compressible := c13Compressible(resp)
	compress.VerifEncodeCalls = 0
	hc := NewHTTPCache()
	hc.Get()
	hc.Cacheable(resp, 60)
	best := compress.Get(compress.BestCompression)
	if compressible {
		verifReach("C13.cacheable.compressible")
		verifAssert("C13.cacheable.both-variants-stored", len(resp.GzipBody) != 0 && len(resp.BrBody) != 0 && len(resp.RawBody) == 0)
		g, gk := compress.VerifOriginalOf(resp.GzipBody)
		b, bk := compress.VerifOriginalOf(resp.BrBody)
		verifAssert("C13.cacheable.variants-decode-to-original", gk == "gzip" && bk == "br" && c13SameBytes(g, orig) && c13SameBytes(b, orig))
		verifAssert("C13.cacheable.profile-is-best", resp.CompressSrv == compress.BestCompression && best != nil)
	} else {
		verifReach("C13.cacheable.not-compressible")
		verifAssert("C13.cacheable.no-encode-when-not-compressible", compress.VerifEncodeCalls == 0)
	}
	atStore := compress.VerifEncodeCalls
	// later hits accepting gzip or br trigger no encoder call
	accept := c13Accepts[1+verifChoice("accept", 4)]
	encoding, body, err := resp.getBodyByAcceptEncoding(accept)
	dec, ok := c13Decoded(encoding, body)
	verifAssert("C13.cacheable.hit-ok", err == nil && ok && c13SameBytes(dec, orig))
	if compressible {
		verifAssert("C13.cacheable.no-encode-per-request", compress.VerifEncodeCalls == atStore)
		verifAssert("C13.cacheable.compressed-once", atStore <= 2)
	}
}

// NewHTTPResponse: upstream encodings gzip / br are kept, lz4 / zst / snz are decoded, identity kept;
// status and end-to-end headers preserved, the four hop/representation headers dropped.
func Harness_C05_new_response() {
	compress.VerifCodecStubs = true
	orig := verifBytesSym("body", 8)
	encs := []string{"", "gzip", "br", "lz4", "zst", "snz"}
	enc := encs[verifChoice("upstreamEncoding", len(encs))]
	data := orig
	if enc != "" {
		verifAssume(len(orig) > 0)
		data = compress.VerifEncode(enc, orig, 0)
	}
	code := verifInt("status")
	h := http.Header{"Content-Type": {"text/html"}, "X-Other": {"a", "b"}, "Content-Length": {"10"}, "Connection": {"close"}, "Date": {"d"}}
	if enc != "" {
		h["Content-Encoding"] = []string{enc}
	}
	resp, err := NewHTTPResponse(code, h, enc, data)
	verifAssert("C05.new.ok", err == nil && resp != nil)
	verifAssert("C05.new.status-preserved", resp.StatusCode == code)
	verifAssert("C05.new.end-to-end-headers", len(resp.Header["X-Other"]) == 2 && resp.Header.Get("Content-Type") == "text/html")
	// length and coding describe the upstream's representation, which pike may re-encode: they must not be kept
	verifAssert("C05.new.representation-headers-not-kept", resp.Header.Get("Content-Length") == "" && resp.Header.Get("Content-Encoding") == "")
	switch enc {
	case "gzip":
		verifAssert("C05.new.gzip-kept", c13SameBytes(resp.GzipBody, data) && len(resp.RawBody) == 0 && len(resp.BrBody) == 0)
	case "br":
		verifAssert("C05.new.br-kept", c13SameBytes(resp.BrBody, data) && len(resp.RawBody) == 0 && len(resp.GzipBody) == 0)
	default:
		verifAssert("C05.new.decoded-to-raw", c13SameBytes(resp.RawBody, orig) && len(resp.GzipBody) == 0 && len(resp.BrBody) == 0)
	}
	raw, err := resp.GetRawBody()
	verifAssert("C05.new.raw-body-is-original", err == nil && c13SameBytes(raw, orig))
	verifReach("C05.new.end")
}
