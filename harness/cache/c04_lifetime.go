//go:build verif_harness

package cache

// C04 — one-step inductive harnesses on the entry.
//
// Invariant I of a stored entry:  status == hit  =>  expiredAt == createdAt + T (wrapping)
// where createdAt is the clock value read by Cacheable ("obtained") and response is the one stored then.

// Cacheable establishes I from any state, for every T >= 1 (any int) and every clock value.
func Harness_C04_cacheable_establishes() {
	hc := NewHTTPCache()
	hc.status = Status(verifInt("pre.status"))
	hc.createdAt = verifInt64("pre.createdAt")
	hc.expiredAt = verifInt64("pre.expiredAt")
	T := verifInt("T")
	verifAssume(T >= 1)
	resp := &HTTPResponse{}
	before := ghostClock
	hc.Cacheable(resp, T)
	after := ghostClock
	verifAssert("C04.cacheable.status-hit", hc.status == StatusHit)
	verifAssert("C04.cacheable.response", hc.response == resp)
	// "obtained" is a clock value read while storing
	verifAssert("C04.cacheable.createdAt", hc.createdAt >= before && hc.createdAt <= after)
	verifAssert("C04.cacheable.expiredAt", hc.expiredAt == hc.createdAt+int64(T))
	verifAssert("C04.cacheable.never-immortal", hc.expiredAt != 0)
	verifAssert("C04.cacheable.lock-released", !verifLockHeld(hc.mu))
	verifReach("C04.cacheable.end")
}

// One Get() on an arbitrary stored entry satisfying I, at an arbitrary later clock value.
func Harness_C04_get_step() {
	hc := NewHTTPCache()
	T := verifInt("T")
	verifAssume(T >= 1)
	obtained := verifInt64("obtained")
	verifAssume(obtained >= 1 && obtained < 1<<62)
	resp := &HTTPResponse{}
	hc.status = StatusHit
	hc.response = resp
	hc.createdAt = obtained
	hc.expiredAt = obtained + int64(T)
	ghostClock = obtained
	status, got := hc.Get()
	now := ghostClock
	elapsed := now - obtained
	if status == StatusHit {
		verifReach("C04.get.hit")
		// served only while fewer than T+1 seconds have elapsed
		verifAssert("C04.hit-within-lifetime", elapsed >= 0 && elapsed <= int64(T))
		verifAssert("C04.hit-returns-stored-response", got == resp)
		verifAssert("C04.hit-does-not-extend", hc.expiredAt == obtained+int64(T) && hc.createdAt == obtained)
		verifAssert("C04.hit-keeps-entry", hc.status == StatusHit && hc.response == resp)
	} else {
		verifReach("C04.get.expired")
		// the first request after the lifetime goes back to the upstream
		verifAssert("C04.expired-goes-to-upstream", status == StatusFetching && got == nil)
		verifAssert("C04.expired-only-after-lifetime", elapsed > int64(T) || obtained+int64(T) < 0)
		verifAssert("C04.expired-entry-is-fetching", hc.status == StatusFetching && hc.expiredAt == 0)
		// ... and the fresh result replaces the old one
		T2 := verifInt("T2")
		verifAssume(T2 >= 1)
		resp2 := &HTTPResponse{}
		hc.Cacheable(resp2, T2)
		verifAssert("C04.refetch-replaces", hc.status == StatusHit && hc.response == resp2 && hc.createdAt == ghostClock && hc.expiredAt == ghostClock+int64(T2))
	}
	verifAssert("C04.get.lock-released", !verifLockHeld(hc.mu))
}

// Age on a hit: 0 <= Age <= T and within one second of the true elapsed time.
// The clock is read once by the hit decision and once more by Age().
func Harness_C04_age() {
	hc := NewHTTPCache()
	T := verifInt("T")
	verifAssume(T >= 1 && T < 1<<40)
	obtained := verifInt64("obtained")
	verifAssume(obtained >= 1 && obtained < 1<<62)
	resp := &HTTPResponse{}
	hc.status = StatusHit
	hc.response = resp
	hc.createdAt = obtained
	hc.expiredAt = obtained + int64(T)
	ghostClock = obtained
	// what the cache middleware does: the age comes with the hit decision
	before := ghostClock
	status, _, age := hc.GetWithAge()
	after := ghostClock
	verifAssume(status == StatusHit)
	verifAssert("C04.age-nonneg", age >= 0)
	verifAssert("C04.age-le-T", age <= T)
	// within one second of the true time since the response was obtained (at some instant of the request)
	verifAssert("C04.age-within-1s", int64(age) >= before-obtained-1 && int64(age) <= after-obtained+1)
	verifReach("C04.age.end")
}

// A request that has to wait for the entry lock (held meanwhile by a slow Cacheable/saveToStore or a
// restore from the store): waiting takes an arbitrary time, modelled by a clock that advances by an
// arbitrary amount at the moment the lock is obtained (verifOnLock).  The hit decision is made with
// the lock held, i.e. not before that moment: a hit is allowed only if the entry is still within its
// lifetime then, and the Age is not smaller than the time elapsed until then.  (A clock value sampled
// before waiting for the lock is stale when the decision is made.)
func Harness_C04_hit_after_lock_wait() {
	hc := NewHTTPCache()
	T := verifInt("T")
	verifAssume(T >= 1 && T < 1<<40)
	obtained := verifInt64("obtained")
	verifAssume(obtained >= 1 && obtained < 1<<61)
	resp := &HTTPResponse{}
	hc.status = StatusHit
	hc.response = resp
	hc.createdAt = obtained
	hc.expiredAt = obtained + int64(T)
	ghostClock = obtained
	lockedAt := int64(0)
	verifOnLock(hc.mu, func() {
		wait := verifInt64("lockWait")
		verifAssume(wait >= 0 && wait < 1<<60)
		ghostClock += wait
		lockedAt = ghostClock
	})
	status, got, age := hc.GetWithAge()
	if status == StatusHit {
		verifReach("C04.lockwait.hit")
		verifAssert("C04.lockwait.hit-only-if-fresh-when-the-lock-was-obtained", lockedAt-obtained <= int64(T))
		verifAssert("C04.lockwait.age-covers-the-wait", int64(age) >= lockedAt-obtained && got == resp)
	} else {
		verifReach("C04.lockwait.expired")
		verifAssert("C04.lockwait.expired-goes-upstream", status == StatusFetching)
	}
}
