//go:build verif_harness

package cache

// Entry-level concurrent system: N requests on one cache entry, each calling the real
// Get() and then, when it is the fetcher, Cacheable()/HitForPass() with an arbitrary outcome.
// The scheduler, every clock reading and every outcome are solver variables.

var ghostInflight int // requests of status fetching currently "at the upstream"
var ghostFetches int  // total number of fetching requests
var ghostPasses int   // requests forwarded as hit-for-pass
var ghostTTL int
var ghostHFP int

func bmcRequest(hc *httpCache, name string) {
	status, resp := hc.Get()
	switch status {
	case StatusFetching:
		verifAtomic(func() {
			ghostInflight++
			ghostFetches++
			verifAssert("C01.at-most-one-fetch-in-flight", ghostInflight <= 1)
		})
		verifAssert("C02.fetcher-gets-no-response", resp == nil)
		outcome := verifChoice("outcome", 2)
		verifAtomic(func() { ghostInflight-- })
		if outcome == 0 {
			verifReach("bmc.cacheable")
			hc.Cacheable(&HTTPResponse{}, ghostTTL)
		} else {
			verifReach("bmc.uncacheable")
			hc.HitForPass(ghostHFP)
		}
	case StatusHit:
		verifReach("bmc.hit")
		verifAssert("C02.hit-carries-response", resp != nil)
	case StatusHitForPass:
		verifReach("bmc.pass")
		verifAssert("C07.pass-carries-no-response", resp == nil)
		verifAtomic(func() { ghostPasses++ })
	default:
		// Get() only ever reports fetching, hit or hit-for-pass
		verifAssert("C01.status-is-decided", false)
	}
}

func bmcEntrySetup() *httpCache {
	ghostClockMax = 64
	ghostTTL = verifInt("ttl")
	verifAssume(ghostTTL >= 1)
	verifAssume(ghostTTL < 32)
	ghostHFP = verifInt("hitForPass")
	verifAssume(ghostHFP < 32)
	verifAssume(ghostHFP > -2)
	return NewHTTPCache()
}

// three concurrent requests on a cold key, free clock (expiry may happen at any moment)
func Harness_BMC_entry3() {
	verifSeqBound(2)
	hc := bmcEntrySetup()
	verifGo("r1", func() { bmcRequest(hc, "r1") })
	verifGo("r2", func() { bmcRequest(hc, "r2") })
	verifGo("r3", func() { bmcRequest(hc, "r3") })
	verifBMC()
}

func Harness_BMC_entry2() {
	verifSeqBound(1)
	hc := bmcEntrySetup()
	verifGo("r1", func() { bmcRequest(hc, "r1") })
	verifGo("r2", func() { bmcRequest(hc, "r2") })
	verifBMC()
}
