//go:build verif_harness

package cache

import (
	"errors"
	"time"

	"github.com/vicanso/pike/store"
)

var errStoreNotFound = store.ErrNotFound

// Entry-level concurrent system: N requests on one cache entry, each calling the real
// Get() and then, when it is the fetcher, Cacheable()/HitForPass() with an arbitrary outcome.
// The scheduler, every clock reading and every outcome are solver variables.

var ghostInflight int // requests of status fetching currently "at the upstream"
var ghostFetches int  // total number of fetching requests
var ghostPasses int   // requests forwarded as hit-for-pass
var ghostWaiterCheck = true // (off in the 4-thread / 3-thread-with-store systems of the thorough tier: see there)
var ghostUncacheable int   // fetches that ended (or are about to end) as hit-for-pass
var ghostTTL int
var ghostHFP int

func bmcRequest(hc *httpCache, name string) {
	status, resp := hc.Get()
	if ghostWaiterCheck && verifParked() > 0 && status != StatusHit {
		// this request waited behind an in-flight fetch.  If every fetch so far turned out cacheable,
		// so did the one it waited for, and it must be answered from it (also when the entry expires
		// between its wake-up and its resumption) instead of going to the upstream itself.
		verifAtomic(func() {
			verifAssert("C01.waiter-answered-from-cacheable-fetch", ghostUncacheable > 0)
		})
	}
	switch status {
	case StatusFetching:
		verifAtomic(func() {
			ghostInflight++
			verifAssert("C01.at-most-one-fetch-in-flight", ghostInflight <= 1)
		})
		verifAssert("C02.fetcher-gets-no-response", resp == nil)
		outcome := verifChoice("outcome", 2)
		verifAtomic(func() {
			ghostInflight--
			if outcome != 0 {
				ghostUncacheable++
			}
		})
		if outcome == 0 {
			verifReach("bmc.cacheable")
			hc.Cacheable(&HTTPResponse{}, ghostTTL)
		} else {
			verifReach("bmc.uncacheable")
			hc.HitForPass(ghostHFP)
		}
	case StatusHit:
		verifReach("bmc.hit")
		verifAssert("C02.hit-carries-response", resp != nil)
	case StatusHitForPass:
		verifReach("bmc.pass")
		verifAssert("C07.pass-carries-no-response", resp == nil)

	default:
		// Get() only ever reports fetching, hit or hit-for-pass
		verifAssert("C01.status-is-decided", false)
	}
}

func bmcEntrySetup() *httpCache {
	ghostClockMax = 64
	ghostNoReadCount = true
	ghostTTL = verifInt("ttl")
	verifAssume(ghostTTL >= 1)
	verifAssume(ghostTTL < 32)
	ghostHFP = verifInt("hitForPass")
	verifAssume(ghostHFP < 32)
	verifAssume(ghostHFP > -2)
	return NewHTTPCache()
}

// three concurrent requests on a cold key, free clock (expiry may happen at any moment)
func Harness_BMC_entry3() {
	verifSeqBound(2)
	hc := bmcEntrySetup()
	verifGo("r1", func() { bmcRequest(hc, "r1") })
	verifGo("r2", func() { bmcRequest(hc, "r2") })
	verifGo("r3", func() { bmcRequest(hc, "r3") })
	verifBMC()
}

// thorough: four concurrent requests.  The waiter obligation (an extra shared read per parked
// request) is decided on the 3-thread system only: with it the 4-thread obligations did not finish
// within an hour.
func Harness_BMC_entry4() {
	ghostWaiterCheck = false
	verifSeqBound(3)
	hc := bmcEntrySetup()
	verifGo("r1", func() { bmcRequest(hc, "r1") })
	verifGo("r2", func() { bmcRequest(hc, "r2") })
	verifGo("r3", func() { bmcRequest(hc, "r3") })
	verifGo("r4", func() { bmcRequest(hc, "r4") })
	verifBMC()
}

func Harness_BMC_entry2() {
	verifSeqBound(1)
	hc := bmcEntrySetup()
	verifGo("r1", func() { bmcRequest(hc, "r1") })
	verifGo("r2", func() { bmcRequest(hc, "r2") })
	verifBMC()
}

// ---- with a persistent store ----

// In the store-backed BMC system the bytes written to the store are abstract (the record format is
// decided by C08/C09): encoding an entry does not dereference the published response.
var ghostAbstractBytes bool

//verif:hook (*github.com/vicanso/pike/cache.httpCache).Bytes
func verifHook_httpCacheBytes(hc *httpCache) ([]byte, error) {
	if ghostAbstractBytes {
		return []byte{1}, nil
	}
	return hc.Bytes()
}

// bmcStore answers Get with a fixed record chosen by the harness (immutable bytes) or not-found;
// Set and Delete only count.  Calls are atomic environment steps.
type bmcStore struct {
	record []byte
	sets   int
}

func (s *bmcStore) Get(key []byte) (data []byte, err error) {
	verifAtomic(func() {
		if s.record == nil {
			err = errStoreNotFound
		} else {
			data = s.record
		}
	})
	return
}

var errBMCStoreSet = errors.New("bmc store: set failed")

// Set succeeds or fails, the solver decides per call (C10: waiters are released under write errors too)
func (s *bmcStore) Set(key []byte, data []byte, ttl time.Duration) error {
	verifAtomic(func() { s.sets++ })
	if verifChoice("setFails", 2) == 1 {
		verifReach("bmc.store-set-fails")
		return errBMCStoreSet
	}
	return nil
}
func (s *bmcStore) Delete(key []byte) error { return nil }
func (s *bmcStore) Close() error            { return nil }

// three requests on a key whose store record is an old, already expired hit (a store with lazy TTL)
func Harness_BMC_entry_store3() {
	bmcEntryStore(3)
}

func Harness_BMC_entry_store2() {
	bmcEntryStore(2)
}

func bmcEntryStore(n int) {
	verifSeqBound(n - 1)
	ghostClockMax = 64
	ghostNoReadCount = true
	ghostTTL = verifInt("ttl")
	verifAssume(ghostTTL >= 1)
	verifAssume(ghostTTL < 32)
	ghostHFP = 5
	old := &httpCache{status: StatusHit, response: &HTTPResponse{StatusCode: 200}, createdAt: -20, expiredAt: -10}
	rec, _ := old.Bytes()
	ghostAbstractBytes = true
	st := &bmcStore{record: rec}
	hc := NewHTTPStoreCache([]byte("GET h /"), st)
	verifGo("r1", func() { bmcRequest(hc, "r1") })
	verifGo("r2", func() { bmcRequest(hc, "r2") })
	if n > 2 {
		verifGo("r3", func() { bmcRequest(hc, "r3") })
	}
	verifBMC()
}
