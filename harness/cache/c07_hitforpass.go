//go:build verif_harness

package cache

// C07 — hit-for-pass at the entry level (sequential part).

// HitForPass(p) marks the key for p seconds (300 when p <= 0) from the clock value it reads.
func Harness_C07_mark() {
	hc := NewHTTPCache()
	hc.status = StatusFetching
	p := verifInt("hitForPass")
	verifAssume(p < 1<<40)
	before := ghostClock
	hc.HitForPass(p)
	after := ghostClock
	period := int64(p)
	if p <= 0 {
		period = 300
	}
	setAt := hc.expiredAt - period
	verifAssert("C07.mark.status", hc.status == StatusHitForPass)
	verifAssert("C07.mark.period", setAt >= before && setAt <= after)
	verifAssert("C07.mark.waiters-drained", verifChanSliceLen(hc) == 0 && !verifLockHeld(hc.mu))
	verifReach("C07.mark.end")
}

// One Get() on an arbitrary hit-for-pass entry.
func Harness_C07_get_step() {
	hc := NewHTTPCache()
	setAt := verifInt64("setAt")
	verifAssume(setAt >= 1 && setAt < 1<<62)
	period := verifInt64("period")
	verifAssume(period >= 1 && period < 1<<40)
	hc.status = StatusHitForPass
	hc.expiredAt = setAt + period
	hc.createdAt = verifInt64("createdAt")
	stale := &HTTPResponse{}
	if verifBool("hasStaleResponse") {
		hc.response = stale
	}
	ghostClock = setAt
	status, resp := hc.Get() // parking here would be a deadlock (sequential): never queued
	now := ghostClock
	if now <= setAt+period {
		verifReach("C07.within-period")
		verifAssert("C07.within.forwarded-not-cached", status == StatusHitForPass && resp == nil)
		verifAssert("C07.within.marker-untouched", hc.status == StatusHitForPass && hc.expiredAt == setAt+period && verifChanSliceLen(hc) == 0)
	} else {
		verifReach("C07.after-period")
		verifAssert("C07.after.single-probe", status == StatusFetching && resp == nil && hc.status == StatusFetching && hc.expiredAt == 0)
		// the probe's answer decides: cacheable => hit, otherwise marked again
		if verifBool("probeCacheable") {
			r := &HTTPResponse{}
			hc.Cacheable(r, 60)
			s2, r2 := hc.Get()
			verifAssert("C07.after.becomes-cacheable", (s2 == StatusHit && r2 == r) || ghostClock > hc.expiredAt)
		} else {
			hc.HitForPass(0)
			s2, _ := hc.Get()
			verifAssert("C07.after.marked-again", s2 == StatusHitForPass || ghostClock > hc.expiredAt)
		}
	}
	verifAssert("C07.lock-released", !verifLockHeld(hc.mu))
}

// the dispatcher hands the configured period through unchanged
func Harness_C07_dispatcher_period() {
	p := verifInt("hitForPass")
	d := NewDispatcher(DispatcherOption{Name: "c", Size: 8, HitForPass: p})
	verifAssert("C07.dispatcher-period", d.GetHitForPass() == p)
	verifReach("C07.disp.end")
}
