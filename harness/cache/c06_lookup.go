//go:build verif_harness

package cache

import "time"

// C06/C11/C18 — shard behaviour over the real dispatcher, groupcache/lru and container/list
// with the hash function left uninterpreted (any hash: "however keys collide").

func c06KeyEq(a, b []byte) bool {
	if len(a) != len(b) {
		return false
	}
	eq := true
	for i := 0; i < len(a); i++ {
		eq = verifAnd(eq, a[i] == b[i])
	}
	return eq
}

// Two zones of one entry each: collisions and evictions both occur.
func Harness_C06_lookup() {
	d := NewDispatcher(DispatcherOption{Name: "c", Size: 2})
	verifAssume(len(d.list) == 2)
	k1 := verifBytes("k1", 2)
	k2 := verifBytes("k2", 2)
	verifAssume(len(k1) > 0 && len(k2) > 0)
	sameKey := c06KeyEq(k1, k2)
	sameZone := MemHash(k1)%2 == MemHash(k2)%2
	e1 := d.GetHTTPCache(k1)
	e1again := d.GetHTTPCache(k1)
	verifAssert("C06.lookup-stable", e1 == e1again)
	e2 := d.GetHTTPCache(k2)
	// never an entry created for a different key, whatever the hash returns
	verifAssert("C06.lookup-by-full-key", (e1 == e2) == sameKey)
	e1b := d.GetHTTPCache(k1)
	verifAssert("C06.lookup-after-collision-not-foreign", verifImplies(verifNot(sameKey), e1b != e2))
	// with capacity 1 per zone, k2 evicts k1 exactly when they share the zone
	evicted := verifAnd(verifNot(sameKey), sameZone)
	verifAssert("C06.lookup-evicted-is-fresh", verifImplies(evicted, e1b != e1))
	verifAssert("C06.lookup-retained", verifImplies(verifNot(evicted), e1b == e1))
	verifAssert("C06.fresh-entry-unknown", verifImplies(evicted, e1b.status == StatusUnknown && e1b.response == nil))
	// C11: per-zone bound
	for _, z := range d.list {
		verifAssert("C11.zone-len-le-max", z.cache.Len() <= z.cache.MaxEntries)
	}
	// key buffers handed to the shard (they become map keys through the unsafe cast) are never written afterwards
	d.RemoveHTTPCache(k2)
	verifAssert("C06.no-write-after-key-cast", !verifFrozenWrite())
	e2b := d.GetHTTPCache(k2)
	verifAssert("C18.removed-is-fresh", e2b != e2 || sameKey)
	verifReach("C06.lookup.end")
}

// C11 — per-shard bound and LRU order on the real groupcache/lru: a dispatcher of 4 zones x 2
// entries, four arbitrary keys; after every operation no zone exceeds its limit, and the entry
// dropped is the least recently used one of its zone.
func Harness_C11_lru() {
	d := NewDispatcher(DispatcherOption{Name: "c", Size: 2})
	// one zone would need Size 1; force both keys of interest into zone 0 by assumption instead
	verifAssume(len(d.list) == 2)
	ka := verifBytes("ka", 1)
	kb := verifBytes("kb", 1)
	kc := verifBytes("kc", 1)
	verifAssume(len(ka) == 1 && len(kb) == 1 && len(kc) == 1)
	verifAssume(ka[0] != kb[0] && kb[0] != kc[0] && ka[0] != kc[0])
	d.list[0].cache.MaxEntries = 2
	d.list[1].cache.MaxEntries = 2
	za, zb, zc := MemHash(ka)%2, MemHash(kb)%2, MemHash(kc)%2
	ea := d.GetHTTPCache(ka)
	eb := d.GetHTTPCache(kb)
	ea2 := d.GetHTTPCache(ka) // ka is now more recently used than kb
	verifAssert("C11.lru.hit-keeps-entry", ea2 == ea)
	ec := d.GetHTTPCache(kc)
	_ = ec
	for _, z := range d.list {
		verifAssert("C11.lru.zone-len-le-max", z.cache.Len() <= 2)
	}
	total := d.list[0].cache.Len() + d.list[1].cache.Len()
	verifAssert("C11.lru.total-le-size", total <= 4 && total >= 2)
	allSame := verifAnd(za == zb, zb == zc)
	// three distinct keys in one zone of two: the least recently used (kb) is the one dropped
	ea3 := d.GetHTTPCache(ka)
	verifAssert("C11.lru.recent-survives", ea3 == ea)
	eb2 := d.GetHTTPCache(kb)
	verifAssert("C11.lru.lru-dropped", verifImplies(allSame, eb2 != eb))
	verifAssert("C11.lru.no-needless-drop", verifImplies(verifNot(allSame), eb2 == eb))
	verifAssert("C11.lru.dropped-is-fresh", verifImplies(allSame, eb2.status == StatusUnknown))
	verifReach("C11.lru.end")
}

// keyStore records (by reference) the key of every call it gets.
type keyStore struct {
	getKey, setKey, delKey []byte
	gets, sets, dels       int
}

func (s *keyStore) Get(key []byte) ([]byte, error) {
	s.gets++
	s.getKey = key
	return nil, errStoreNotFound
}
func (s *keyStore) Set(key []byte, data []byte, ttl time.Duration) error {
	s.sets++
	s.setKey = key
	return nil
}
func (s *keyStore) Delete(key []byte) error {
	s.dels++
	s.delKey = key
	return nil
}
func (s *keyStore) Close() error { return nil }

func c06SameKeyAt(a, b []byte, i int) bool {
	return verifAnd(len(a) == len(b), verifImplies(verifAnd(i >= 0, verifAnd(i < len(a), i < len(b))), c06At(a, i) == c06At(b, i)))
}

func c06At(a []byte, i int) byte {
	if i >= 0 && i < len(a) {
		return a[i]
	}
	return 0
}

// The persisted copy of an entry lives under exactly the entry's cache key: whatever the length of
// the key (up to 2000 bytes here, so beyond any 1 KiB or 255-byte limit of a backend), the key handed
// to the store for lookup, write-through and purge has the same length and the same byte at every
// (symbolic) position.  Two requests that differ anywhere in method, host or URI therefore never
// share a persisted record.
func Harness_C06_store_key() {
	st := &keyStore{}
	k := verifBytesSym("k", 2000)
	verifAssume(len(k) > 0)
	i := verifInt("i")
	hc := NewHTTPStoreCache(k, st)
	s0, _ := hc.Get()
	verifAssume(s0 == StatusFetching)
	verifAssert("C06.store.lookup-uses-the-full-key", verifAnd(st.gets == 1, c06SameKeyAt(st.getKey, k, i)))
	hc.Cacheable(&HTTPResponse{}, 100)
	verifAssert("C06.store.write-uses-the-full-key", verifAnd(st.sets == 1, c06SameKeyAt(st.setKey, k, i)))
	verifReach("C06.store-key.end")
}
