//go:build verif_harness

package cache

import "net/http"

// C20 (lock discipline, sequential) — every access to the guarded fields of a cache entry and of a
// shard happens with its mutex held (write mode for stores), in every public operation incl. the
// ones no BMC thread calls (Age, GetStatus, IsExpired).  Together with the BMC race obligations this
// is the mechanism behind "free of unsynchronised conflicting accesses".
func Harness_C20_entry_discipline() {
	hc := NewHTTPCache()
	verifWatchLock(hc, hc.mu, "key", "mu") // (store is written by a purge's detachStore: guarded like the rest)
	s, _ := hc.Get()
	verifAssume(s == StatusFetching)
	if verifBool("cacheable") {
		hc.Cacheable(&HTTPResponse{Header: http.Header{}}, verifInt("ttl"))
	} else {
		hc.HitForPass(verifInt("hfp"))
	}
	// (a second request parks only behind a fetch; the entry may have lapsed under the free clock)
	if s2, _ := hc.Get(); s2 != StatusFetching {
		if s3, _, _ := hc.GetWithAge(); s3 == StatusFetching {
			hc.HitForPass(0)
		}
	} else {
		hc.HitForPass(0)
	}
	hc.Age()
	hc.GetStatus()
	hc.IsExpired()
	verifAssert("C20.entry-fields-only-under-its-lock", verifUnlockedAccesses() == 0)
	verifReach("C20.entry-discipline.end")
}

func Harness_C20_shard_discipline() {
	d := NewDispatcher(DispatcherOption{Name: "c", Size: 16})
	for _, z := range d.list {
		// the lru and everything it owns in container/list (root, elements): a lookup moves the
		// element to the front, i.e. writes, so lookups need the lock in write mode as well
		verifWatchLockDeep(z.cache, z.mu, "github.com/golang/groupcache/lru", "container/list")
	}
	k1 := []byte("GET h /a")
	k2 := []byte("GET h /b")
	d.GetHTTPCache(k1)
	d.GetHTTPCache(k2)
	d.GetHTTPCache(k1)
	d.RemoveHTTPCache(k1)
	d.RemoveHTTPCache([]byte("absent"))
	d.GetHTTPCache(k1)
	verifAssert("C20.shard-lru-only-under-shard-lock", verifUnlockedAccesses() == 0)
	verifReach("C20.shard-discipline.end")
}
