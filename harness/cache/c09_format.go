//go:build verif_harness

package cache

import (
	"net/http"
	"regexp"

	"github.com/vicanso/pike/compress"
)

// C09 — persistence format: round trip, garbage, truncation.

func c09BytesEq(a, b []byte) bool {
	if len(a) != len(b) {
		return false
	}
	eq := true
	for i := 0; i < len(a); i++ {
		eq = verifAnd(eq, a[i] == b[i])
	}
	return eq
}

func c09Entry(maxBody int) *httpCache {
	hc := NewHTTPCache()
	// entry states are the five enum values
	st := verifInt("status")
	verifAssume(st >= 0 && st <= 4)
	hc.status = Status(st)
	hc.createdAt = verifInt64("createdAt")
	hc.expiredAt = verifInt64("expiredAt")
	if verifBool("hasResponse") {
		resp := &HTTPResponse{
			CompressSrv:       verifString("srv", 1+verifTier()),
			CompressMinLength: verifInt("minLength"),
			StatusCode:        verifInt("code"),
		}
		// body variants: every length 0..maxBody (incl. nil) for each variant on its own, plus all three present
		switch verifChoice("bodies", 5) {
		case 1:
			resp.GzipBody = verifBytes("gzip", maxBody)
		case 2:
			resp.BrBody = verifBytes("br", maxBody)
		case 3:
			resp.RawBody = verifBytes("raw", maxBody)
		case 4:
			resp.GzipBody = verifBytes("gzip", maxBody)
			resp.BrBody = verifBytes("br", 1)
			resp.RawBody = verifBytes("raw", 1)
		}
		verifAssume(resp.StatusCode >= 0 && resp.StatusCode <= 999)
		if verifBool("hasFilter") {
			resp.CompressContentTypeFilter = regexp.MustCompile(`text|json`)
		}
		switch verifChoice("header", 3) {
		case 1:
			resp.Header = http.Header{}
		case 2:
			resp.Header = http.Header{"Content-Type": {"text/html"}, "X-Multi": {"a", "b"}, "X-Utf8": {"é"}}
		}
		hc.response = resp
	}
	return hc
}

func Harness_C09_roundtrip() {
	compress.VerifCodecStubs = true // (the bodies here are arbitrary bytes: decoding them fails, before and after the round trip alike)
	maxBody := 2
	if verifTier() > 0 {
		maxBody = 4
	}
	hc := c09Entry(maxBody)
	data, err := hc.Bytes()
	verifAssert("C09.encode-ok", err == nil)
	n := 24
	if r := hc.response; r != nil {
		n += 32 + len(r.CompressSrv) + len(r.GzipBody) + len(r.BrBody) + len(r.RawBody)
		if r.CompressContentTypeFilter != nil {
			n += len(r.CompressContentTypeFilter.String())
		}
		hb := 4 // "null"
		if r.Header != nil {
			hb = 4 // the abstract JSON image "{Jn}"
		}
		n += hb
	}
	_ = n

	hc2 := NewHTTPCache()
	err = hc2.FromBytes(data)
	verifAssert("C09.decode-ok", err == nil)
	verifAssert("C09.rt.status", hc2.status == hc.status)
	verifAssert("C09.rt.timestamps", hc2.createdAt == hc.createdAt && hc2.expiredAt == hc.expiredAt)
	if r := hc.response; r != nil {
		r2 := hc2.response
		verifAssert("C09.rt.response-present", r2 != nil)
		verifAssert("C09.rt.srv", r2.CompressSrv == r.CompressSrv)
		// known finding F8: the minimum compress length is stored in 32 bits
		verifAssertKF("C09.rt.minLength", r2.CompressMinLength == r.CompressMinLength, "F8",
			r.CompressMinLength < 0 || r.CompressMinLength > 4294967295)
		verifAssert("C09.rt.code", r2.StatusCode == r.StatusCode)
		verifAssert("C09.rt.bodies", verifAnd(c09BytesEq(r2.GzipBody, r.GzipBody), verifAnd(c09BytesEq(r2.BrBody, r.BrBody), c09BytesEq(r2.RawBody, r.RawBody))))
		if r.CompressContentTypeFilter != nil {
			verifAssert("C09.rt.filter", r2.CompressContentTypeFilter != nil && r2.CompressContentTypeFilter.String() == r.CompressContentTypeFilter.String())
		} else {
			verifAssert("C09.rt.no-filter", r2.CompressContentTypeFilter == nil)
		}
		// ... and behaves identically for a client that takes the identity body (decoded from the
		// stored variant when there is no raw body: a restored empty raw body must not shadow it)
		b1, e1 := r.GetRawBody()
		b2, e2 := r2.GetRawBody()
		verifAssert("C09.rt.identity-body-behaves-the-same", (e1 == nil) == (e2 == nil) && (e1 != nil || c09BytesEq(b1, b2)))
		verifAssert("C09.rt.header-count", len(r2.Header) == len(r.Header))
		if r.Header != nil && len(r.Header) > 0 {
			verifAssert("C09.rt.header-values", len(r2.Header["X-Multi"]) == 2 && r2.Header["X-Multi"][1] == "b" && r2.Header.Get("Content-Type") == "text/html" && r2.Header.Get("X-Utf8") == "é")
		}
	}
	// decoded entry behaves like the original for a client: encode again gives the same bytes
	data2, err2 := hc2.Bytes()
	verifAssert("C09.rt.reencode", err2 == nil && (hc.response == nil || hc.response.CompressMinLength < 0 || hc.response.CompressMinLength > 4294967295 || c09BytesEq(data, data2)))
	verifReach("C09.roundtrip.end")
}

// every truncated record is reported as an error: a rich record (every field present) and a
// response-less one, cut at every offset (the offset is case-split, the content is symbolic)
func Harness_C09_truncation() {
	hc := NewHTTPCache()
	st := verifInt("status")
	verifAssume(st >= 0 && st <= 4)
	hc.status = Status(st)
	hc.createdAt = verifInt64("createdAt")
	hc.expiredAt = verifInt64("expiredAt")
	if verifBool("hasResponse") {
		hc.response = &HTTPResponse{
			CompressSrv:               verifString("srv", 1),
			CompressMinLength:         verifInt("minLength"),
			StatusCode:                verifInt("code"),
			GzipBody:                  verifBytes("gzip", 1),
			BrBody:                    verifBytes("br", 1),
			RawBody:                   verifBytes("raw", 2),
			CompressContentTypeFilter: regexp.MustCompile(`a|b`),
			Header:                    http.Header{"X-A": {"1"}},
		}
	}
	data, err := hc.Bytes()
	verifAssume(err == nil)
	cut := verifChoice("cut", len(data))
	hc2 := NewHTTPCache()
	err = hc2.FromBytes(data[:cut])
	verifAssert("C09.truncated-is-error", err != nil)
	verifReach("C09.truncation.end")
}

// arbitrary bytes: no panic (implicit assertion on every path), no allocation sized by a decoded length
func c09Garbage(max int) {
	data := verifBytesSym("data", max)
	verifAllocLimit(2*len(data) + 64)
	hc := NewHTTPCache()
	err := hc.FromBytes(data)
	if err == nil {
		verifReach("C09.garbage.accepted")
		// an accepted record is at least a complete minimal record
		verifAssert("C09.accepted-has-min-size", len(data) >= 24)
	} else {
		verifReach("C09.garbage.rejected")
	}
	verifAssert("C09.alloc-bounded", verifMaxAlloc() <= 2*len(data)+64)
}

func Harness_C09_garbage() {
	if verifTier() > 0 {
		c09Garbage(80)
	} else {
		c09Garbage(64)
	}
}

// the response decoder on its own (store records embed it): same no-panic / allocation claims
func Harness_C09_garbage_response() {
	data := verifBytesSym("data", 48)
	verifAllocLimit(2*len(data) + 64)
	resp := &HTTPResponse{}
	_ = resp.FromBytes(data)
	verifAssert("C09.resp.alloc-bounded", verifMaxAlloc() <= 2*len(data)+64)
	verifReach("C09.garbage-response.end")
}
