//go:build verif_harness

package cache

// C11 (arithmetic part): for every configured size S >= 1 the shard limits built by
// NewDispatcher sum to at most S and no shard is unlimited (MaxEntries == 0 means
// "no limit" in groupcache/lru).
func Harness_C11_arith() {
	s := verifInt("size")
	verifAssume(s >= 1)
	d := NewDispatcher(DispatcherOption{Name: "c", Size: s})
	verifAssert("C11.zones-match", uint64(len(d.list)) == d.zoneSize && d.zoneSize >= 1)
	total := 0
	allLimited := true
	for _, z := range d.list {
		if z.cache.MaxEntries <= 0 {
			allLimited = false
		}
		total += z.cache.MaxEntries
	}
	verifAssert("C11.no-unlimited-shard", allLimited)
	verifAssert("C11.sum-le-size", total <= s && total >= 0)
	verifReach("C11.arith.end")
}
