//go:build verif_harness

package cache

import (
	"errors"
	"time"

	"github.com/vicanso/pike/store"
)

var errStoreIO = errors.New("store i/o error")

// faultyStore: every call returns an arbitrary answer of its type (C10).
type faultyStore struct {
	gets, sets, deletes int
	maxRecord           int
	lastGet             int
}

func (s *faultyStore) Get(key []byte) ([]byte, error) {
	s.gets++
	s.lastGet = verifChoice("store.get", 4)
	switch s.lastGet {
	case 0:
		return nil, store.ErrNotFound
	case 1:
		return nil, errStoreIO
	case 2:
		// data together with an error
		return verifBytesSym("record.witherr", 8), errStoreIO
	}
	return verifBytesSym("record", s.maxRecord), nil
}

func (s *faultyStore) Set(key []byte, data []byte, ttl time.Duration) error {
	s.sets++
	if verifBool("store.set.fails") {
		return errStoreIO
	}
	return nil
}

func (s *faultyStore) Delete(key []byte) error {
	s.deletes++
	if verifBool("store.delete.fails") {
		return errStoreIO
	}
	return nil
}

func (s *faultyStore) Close() error { return nil }

// faithfulStore: one record per store (the harnesses use one key); a Set that returned is durable,
// Delete removes, nothing expires by itself (a store with lazy TTL enforcement, like mongodb's).
type faithfulStore struct {
	has                 bool
	key, data           []byte
	ttl                 time.Duration
	gets, sets, deletes int
	setStatusSeen       Status // status of the entry at the time of the last Set (ghost)
}

func (s *faithfulStore) Get(key []byte) ([]byte, error) {
	s.gets++
	if !s.has || string(key) != string(s.key) {
		return nil, store.ErrNotFound
	}
	out := make([]byte, len(s.data))
	copy(out, s.data)
	return out, nil
}

func (s *faithfulStore) Set(key []byte, data []byte, ttl time.Duration) error {
	s.sets++
	s.has = true
	s.key = append([]byte{}, key...)
	s.data = append([]byte{}, data...)
	s.ttl = ttl
	return nil
}

func (s *faithfulStore) Delete(key []byte) error {
	s.deletes++
	if string(key) == string(s.key) {
		s.has = false
	}
	return nil
}

func (s *faithfulStore) Close() error { return nil }
