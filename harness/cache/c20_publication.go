//go:build verif_harness

package cache

import (
	"net/http"

	"github.com/vicanso/pike/compress"
)

// C20 (publication immutability) — once a response has been published in the entry (the store
// to hc.response) nothing writes it any more: waiters and later hits read it without the lock.
// The engine freezes the response object at the moment its address is stored into hc.response
// and records any later write to one of its fields.
func Harness_C20_publication_immutable() {
	compress.VerifCodecStubs = true
	body := verifBytesSym("body", 8)
	verifAssume(len(body) > 0)
	resp := &HTTPResponse{StatusCode: 200, CompressMinLength: verifInt("minLength"), Header: http.Header{"Content-Type": {"text/html"}}}
	verifAssume(resp.CompressMinLength >= 0)
	switch verifChoice("variant", 3) {
	case 0:
		resp.RawBody = body
	case 1:
		resp.GzipBody = compress.VerifEncode("gzip", body, 0)
	default:
		resp.BrBody = compress.VerifEncode("br", body, 0)
	}
	hc := NewHTTPCache()
	hc.Get()
	verifFreezeWhenStored(&hc.response)
	if verifBool("cacheable") {
		hc.Cacheable(resp, 60)
		verifAssert("C20.published-response-is-never-written", !verifFrozenWrite())
		// serving it (any Accept-Encoding) does not write it either
		_, _, err := resp.getBodyByAcceptEncoding(c13Accepts[verifChoice("accept", len(c13Accepts))])
		verifAssert("C20.serving-does-not-write-the-entry", err == nil && !verifFrozenWrite())
		verifReach("C20.pub.cacheable")
	} else {
		hc.HitForPass(0)
		verifAssert("C20.hitforpass-publishes-nothing", hc.response == nil && !verifFrozenWrite())
		verifReach("C20.pub.hfp")
	}
}
