//go:build verif_harness

package cache

import (
	"net/http"
	"time"
)

// C08 — persistence across eviction / restart / kill under the faithful-store contract.
// The kill point is one symbolic Boolean per Set ("did the Set return before the kill?").

func c08Response() *HTTPResponse {
	return &HTTPResponse{
		CompressSrv:       verifString("srv", 1),
		CompressMinLength: 1024,
		StatusCode:        200 + verifChoice("code", 3),
		RawBody:           verifBytes("raw", 2),
		Header:            http.Header{"Content-Type": {"text/plain"}},
	}
}

func c08SameResponse(a, b *HTTPResponse) bool {
	if a == nil || b == nil {
		return false
	}
	if len(a.RawBody) != len(b.RawBody) || len(a.GzipBody) != len(b.GzipBody) || len(a.BrBody) != len(b.BrBody) {
		return false
	}
	eq := verifAnd(a.StatusCode == b.StatusCode, verifAnd(a.CompressSrv == b.CompressSrv, a.CompressMinLength == b.CompressMinLength))
	for i := 0; i < len(a.RawBody); i++ {
		eq = verifAnd(eq, a.RawBody[i] == b.RawBody[i])
	}
	return verifAnd(eq, verifAnd(len(a.Header) == len(b.Header), a.Header.Get("Content-Type") == b.Header.Get("Content-Type")))
}

// A cacheable fetch is written through; a fresh entry for the same key (after eviction, stop or kill)
// restores it unchanged while it is fresh and refetches afterwards.
func Harness_C08_cacheable_restart() {
	st := &faithfulStore{}
	key := []byte("GET h /a")
	hc := NewHTTPStoreCache(key, st)
	s0, _ := hc.Get()
	verifAssert("C08.cold-is-fetching", s0 == StatusFetching)
	T := verifInt("T")
	verifAssume(T >= 1 && T < 1<<31)
	resp := c08Response()
	hc.Cacheable(resp, T)
	verifAssert("C08.write-through", st.sets >= 1 && st.has && string(st.key) == string(key))
	// the store must keep the record at least as long as the entry is fresh
	// (only where the entry is still fresh at the time of the write and the product cannot wrap)
	remaining := hc.expiredAt - ghostClock
	verifAssert("C08.ttl-covers-remaining-lifetime", verifImplies(verifAnd(remaining >= 0, remaining < 1<<32), st.ttl >= time.Duration(remaining)*time.Second))
	// the persisted bytes are those of the final in-memory state
	final, err := hc.Bytes()
	verifAssert("C08.persisted-final-state", err == nil && string(final) == string(st.data))
	createdAt, expiredAt := hc.createdAt, hc.expiredAt

	// kill before the Set returned: nothing (or the previous record) is there
	if !verifBool("setCommitted") {
		st.has = false
	}
	// restart / eviction: a brand-new entry for the same key, later clock
	hc2 := NewHTTPStoreCache(key, st)
	s2, r2 := hc2.Get()
	now2 := ghostClock
	if !st.has {
		verifAssert("C08.uncommitted-is-refetched", s2 == StatusFetching)
		verifReach("C08.restart.uncommitted")
		return
	}
	if now2 > expiredAt {
		verifAssert("C08.never-served-after-expiry", s2 == StatusFetching && r2 == nil)
		verifReach("C08.restart.expired")
		return
	}
	verifReach("C08.restart.restored")
	verifAssert("C08.restored-is-hit", s2 == StatusHit && r2 != nil)
	verifAssert("C08.restored-unaltered", c08SameResponse(r2, resp))
	verifAssert("C08.restored-timestamps", hc2.createdAt == createdAt && hc2.expiredAt == expiredAt)
	age := hc2.Age()
	verifAssert("C08.age-continues-from-original-fetch", int64(age) == ghostClock-createdAt)
}

// Hit-for-pass markers are persisted under the same rules.
func Harness_C08_hitforpass_restart() {
	st := &faithfulStore{}
	key := []byte("GET h /a")
	hc := NewHTTPStoreCache(key, st)
	s0, _ := hc.Get()
	verifAssume(s0 == StatusFetching)
	p := verifInt("hitForPass")
	verifAssume(p < 1<<31)
	hc.HitForPass(p)
	verifAssert("C08.hfp.write-through", st.sets >= 1 && st.has)
	final, err := hc.Bytes()
	verifAssert("C08.hfp.persisted-final-state", err == nil && string(final) == string(st.data))
	expiredAt := hc.expiredAt
	hc2 := NewHTTPStoreCache(key, st)
	s2, r2 := hc2.Get() // a marker persisted as "fetching" would park this request: no-deadlock
	now2 := ghostClock
	if now2 > expiredAt {
		verifAssert("C08.hfp.lapsed-is-probed", s2 == StatusFetching)
		verifReach("C08.hfp.lapsed")
		return
	}
	verifAssert("C08.hfp.restored", s2 == StatusHitForPass && r2 == nil && hc2.expiredAt == expiredAt)
	verifReach("C08.hfp.restored")
}

// Entries are created with the dispatcher's store and the lookup key; purge removes the persisted copy
// even when the key is not resident (after eviction / restart).
func Harness_C08_dispatcher_wiring() {
	st := &faithfulStore{}
	d := NewDispatcher(DispatcherOption{Name: "c", Size: 2})
	d.store = st
	key := []byte("GET h /a")
	e := d.GetHTTPCache(key)
	verifAssert("C08.entry-bound-to-store-and-key", e.store != nil && string(e.key) == string(key))
	s0, _ := e.Get()
	verifAssume(s0 == StatusFetching)
	e.Cacheable(c08Response(), 100)
	verifAssume(st.has)
	// restart: a new dispatcher on the same store; the key is not resident
	d2 := NewDispatcher(DispatcherOption{Name: "c", Size: 2})
	d2.store = st
	d2.RemoveHTTPCache(key)
	verifAssert("C18.purge-removes-persisted-copy", !st.has)
	e2 := d2.GetHTTPCache(key)
	s2, _ := e2.Get()
	verifAssert("C18.after-purge-goes-upstream", s2 == StatusFetching)
	verifReach("C08.wiring.end")
}

// overlapStore: a faithful store during whose first Set another key's write-through runs to
// completion (what a slow disk or network write looks like to a busy cache): the bytes handed to
// the store must not change while the store is using them.
type overlapStore struct {
	faithfulStore
	during  func()
	changed bool
	calls   int
}

func (s *overlapStore) Set(key []byte, data []byte, ttl time.Duration) error {
	s.calls++
	if f := s.during; f != nil {
		s.during = nil
		before := append([]byte{}, data...)
		f()
		if len(before) != len(data) {
			s.changed = true
		}
		for i := 0; i < len(before) && i < len(data); i++ {
			if before[i] != data[i] {
				s.changed = true
			}
		}
	}
	return s.faithfulStore.Set(key, data, ttl)
}

// Two keys are stored at overlapping times (B's whole write-through runs while A's store.Set is in
// progress).  The record the store ends up holding for A is A's: same status code and expiry, not
// B's — buffers used to encode a record are not shared between entries in a way that lets one
// entry's encoding overwrite another's.
func Harness_C08_overlapping_saves() {
	st := &overlapStore{}
	stB := &faithfulStore{}
	a := NewHTTPStoreCache([]byte("GET h /a"), st)
	b := NewHTTPStoreCache([]byte("GET h /b"), stB)
	sa, _ := a.Get()
	sb, _ := b.Get()
	verifAssume(sa == StatusFetching && sb == StatusFetching)
	st.during = func() {
		b.Cacheable(&HTTPResponse{StatusCode: 201, Header: http.Header{}, RawBody: []byte("bb")}, 50)
		verifReach("C08.overlap.nested")
	}
	a.Cacheable(&HTTPResponse{StatusCode: 200, Header: http.Header{}, RawBody: []byte("a")}, 100)
	verifAssert("C08.overlap.bytes-stable-while-the-store-uses-them", !st.changed)
	got := NewHTTPCache()
	err := got.FromBytes(st.data)
	verifAssert("C08.overlap.record-of-a-key-is-its-own", err == nil && got.status == StatusHit && got.response != nil && got.response.StatusCode == 200 && got.expiredAt == a.expiredAt)
	gotB := NewHTTPCache()
	errB := gotB.FromBytes(stB.data)
	verifAssert("C08.overlap.record-of-the-other-key-is-its-own", errB == nil && gotB.response != nil && gotB.response.StatusCode == 201 && gotB.expiredAt == b.expiredAt)
	verifReach("C08.overlap.end")
}
