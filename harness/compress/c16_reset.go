//go:build verif_harness

package compress

// C16 (compress profiles) — after any two successive reconfigurations, every profile a request can
// resolve (the profile named by the final configuration, and bestCompression, which stored entries
// always use) has the levels an instance freshly started with the final configuration would have.

func c16Levels(name string) map[string]int {
	m := map[string]int{}
	if verifBool(name + ".hasGzip") {
		m["gzip"] = int(verifInt32(name + ".gzip"))
	}
	if verifBool(name + ".hasBr") {
		m["br"] = int(verifInt32(name + ".br"))
	}
	return m
}

func c16Options(tag string) []CompressOption {
	var opts []CompressOption
	if verifBool(tag + ".hasP") {
		opts = append(opts, CompressOption{Name: "p", Levels: c16Levels(tag + ".p")})
	}
	if verifBool(tag + ".hasBest") {
		opts = append(opts, CompressOption{Name: BestCompression, Levels: c16Levels(tag + ".best")})
	}
	return opts
}

func c16Builtin() *compressSrvs {
	// the registry a process starts with (same literal as the package-level default list)
	return NewServices([]CompressOption{{Name: BestCompression, Levels: map[string]int{"br": -1, "gzip": 9}}})
}

func Harness_C16_compress_reset() {
	cfg1 := c16Options("cfg1")
	cfg2 := c16Options("cfg2")
	live := c16Builtin()
	live.Reset(cfg1)
	live.Reset(cfg2)
	fresh := c16Builtin()
	fresh.Reset(cfg2)
	names := []string{BestCompression}
	for _, o := range cfg2 {
		if o.Name == "p" {
			names = append(names, "p")
		}
	}
	for _, n := range names {
		for _, enc := range []string{"gzip", "br"} {
			verifAssert("C16.compress.level-equals-fresh-start", live.Get(n).GetLevel(enc) == fresh.Get(n).GetLevel(enc))
		}
	}
	// the built-in default list really is what c16Builtin says
	verifAssert("C16.compress.builtin-default", Get(BestCompression).GetLevel("gzip") == 9 && Get(BestCompression).GetLevel("br") == -1 && Get("").GetLevel("gzip") == -1)
	verifReach("C16.compress.end")
}
