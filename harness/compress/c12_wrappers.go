//go:build verif_harness

package compress

import (
	"compress/gzip"
	"errors"
	"io"

	"github.com/andybalholm/brotli"
	"github.com/pierrec/lz4"
)

// C12 (thin claim: pike's own wrappers) — the encoders and decoders themselves are third-party code
// outside the claim; here they are stubs with ghost state, and what is decided is how pike drives
// them: level handling, stream finalisation order, error propagation, buffer sizing, dispatch.

type verifWriter struct {
	under   io.Writer
	level   int
	writes  int
	wrote   []byte
	closed  bool
	failing bool
}

var verifWriters []*verifWriter
var verifGzipWriter = new(gzip.Writer)
var verifBrWriter = new(brotli.Writer)
var errVerifWrite = errors.New("write failed")
var errVerifLevel = errors.New("gzip: invalid compression level")

//verif:hook compress/gzip.NewWriterLevel
func verifHook_gzipNewWriterLevel(w io.Writer, level int) (*gzip.Writer, error) {
	if level < gzip.HuffmanOnly || level > gzip.BestCompression {
		return nil, errVerifLevel
	}
	verifWriters = append(verifWriters, &verifWriter{under: w, level: level, failing: verifBool("gzip.writeFails")})
	return verifGzipWriter, nil
}

func verifCurrent() *verifWriter { return verifWriters[len(verifWriters)-1] }

func verifWrite(p []byte) (int, error) {
	s := verifCurrent()
	s.writes++
	s.wrote = p
	if s.failing {
		return 0, errVerifWrite
	}
	s.under.Write([]byte{0xAA, byte(len(p))}) // a partial stream (it depends on the input): not decodable until the writer is closed
	return len(p), nil
}

func verifClose() error {
	s := verifCurrent()
	if !s.closed {
		s.closed = true
		s.under.Write([]byte{0xFF}) // trailer
	}
	return nil
}

//verif:hook (*compress/gzip.Writer).Write
func verifHook_gzipWrite(z *gzip.Writer, p []byte) (int, error) { return verifWrite(p) }

//verif:hook (*compress/gzip.Writer).Close
func verifHook_gzipClose(z *gzip.Writer) error { return verifClose() }

//verif:hook github.com/andybalholm/brotli.NewWriterLevel
func verifHook_brNewWriterLevel(w io.Writer, level int) *brotli.Writer {
	verifWriters = append(verifWriters, &verifWriter{under: w, level: level, failing: verifBool("br.writeFails")})
	return verifBrWriter
}

//verif:hook (*github.com/andybalholm/brotli.Writer).Write
func verifHook_brWrite(z *brotli.Writer, p []byte) (int, error) { return verifWrite(p) }

//verif:hook (*github.com/andybalholm/brotli.Writer).Close
func verifHook_brClose(z *brotli.Writer) error { return verifClose() }

func c12Complete(out []byte) bool {
	return len(out) == 3 && out[0] == 0xAA && out[2] == 0xFF
}

func Harness_C12_gzip_wrapper() {
	VerifCodecStubs = false
	data := verifBytes("data", 4)
	level := verifInt("level")
	if verifNative() {
		// native replay: the real codec stands in for the stub; the observable is the round trip
		out, err := doGzip(data, level)
		dec, derr := doGunzip(out)
		verifAssert("C12.gzip.wrapper-protocol", err == nil && derr == nil && string(dec) == string(data))
		return
	}
	verifWriters = nil
	out, err := doGzip(data, level)
	if len(verifWriters) != 1 {
		verifAssert("C12.gzip.wrapper-protocol", false) // the encoder was not driven exactly once
		return
	}
	s := verifCurrent()
	want := level
	if level <= 0 || level > 9 {
		want = gzip.DefaultCompression
	}
	ok := s.level == want
	if s.failing {
		verifReach("C12.gzip.write-error")
		ok = ok && err != nil && out == nil
	} else {
		verifReach("C12.gzip.ok")
		// whole input written exactly once, stream finalised (Close) before the buffer is read
		ok = ok && err == nil && s.writes == 1 && verifSameBytes(s.wrote, data) && s.closed && c12Complete(out)
	}
	verifAssert("C12.gzip.wrapper-protocol", ok)
}

func verifSameBytes(a, b []byte) bool {
	if len(a) == 0 && len(b) == 0 {
		return true
	}
	return verifSameBacking(a, b) && len(a) == len(b)
}

func Harness_C12_brotli_wrapper() {
	VerifCodecStubs = false
	data := verifBytes("data", 4)
	level := verifInt("level")
	if verifNative() {
		out, err := doBrotli(data, level)
		dec, derr := doBrotliDecode(out)
		verifAssert("C12.br.wrapper-protocol", err == nil && derr == nil && string(dec) == string(data))
		return
	}
	verifWriters = nil
	out, err := doBrotli(data, level)
	if len(verifWriters) != 1 {
		verifAssert("C12.br.wrapper-protocol", false)
		return
	}
	s := verifCurrent()
	want := level
	if level <= 0 || level > 11 {
		want = 6
	}
	ok := s.level == want
	if s.failing {
		ok = ok && err != nil && out == nil
		verifReach("C12.br.write-error")
	} else {
		ok = ok && err == nil && s.writes == 1 && verifSameBytes(s.wrote, data) && s.closed && c12Complete(out)
		verifReach("C12.br.ok")
	}
	verifAssert("C12.br.wrapper-protocol", ok)
}

// service level plumbing: SetLevels / GetLevel / Gzip / Brotli hand the configured level on
func Harness_C12_service_levels() {
	VerifCodecStubs = false
	srv := NewService()
	g, b := int(verifInt32("gzipLevel")), int(verifInt32("brLevel"))
	srv.SetLevels(map[string]int{"gzip": g, "br": b})
	verifAssert("C12.levels.get", srv.GetLevel("gzip") == g && srv.GetLevel("br") == b && srv.GetLevel("other") == 0)
	verifWriters = nil
	srv.Gzip([]byte("x"))
	wg := g
	if g <= 0 || g > 9 {
		wg = -1
	}
	verifAssert("C12.levels.gzip-passed", verifCurrent().level == wg)
	srv.Brotli([]byte("x"))
	wb := b
	if b <= 0 || b > 11 {
		wb = 6
	}
	verifAssert("C12.levels.br-passed", verifCurrent().level == wb)
	verifReach("C12.levels.end")
}

// ---- lz4 buffer sizing ----

var ghostLZ4Decoded int
var ghostLZ4Calls int

// contract: a valid block whose decoded length is n decodes iff len(dst) >= n
//
//verif:hook github.com/pierrec/lz4.UncompressBlock
func verifHook_lz4Uncompress(src, dst []byte) (int, error) {
	ghostLZ4Calls++
	if len(dst) < ghostLZ4Decoded {
		return 0, lz4.ErrInvalidSourceShortBuffer
	}
	return ghostLZ4Decoded, nil
}

func Harness_C12_lz4_buffer() {
	VerifCodecStubs = false
	src := verifBytes("src", 3)
	verifAssume(len(src) > 0)
	ghostLZ4Decoded = verifInt("decodedLen")
	// LZ4's format bound: a block expands at most 255 times
	verifAssume(ghostLZ4Decoded >= 0)
	verifAssume(ghostLZ4Decoded <= 255*len(src))
	ghostLZ4Calls = 0
	out, err := doLZ4Decode(src)
	verifAssert("C12.lz4.valid-block-decodes-whatever-the-ratio", err == nil && len(out) == ghostLZ4Decoded)
	verifAssert("C12.lz4.bounded-retries", ghostLZ4Calls <= 8)
	verifReach("C12.lz4.end")
}

// ---- dispatch ----

func Harness_C12_dispatch() {
	VerifCodecStubs = true
	names := []string{"gzip", "br", "lz4", "zst", "snz"}
	orig := verifBytesSym("body", 4)
	verifAssume(len(orig) > 0)
	srv := NewService()
	k := verifChoice("kind", len(names))
	enc := VerifEncode(names[k], orig, 0)
	for j, n := range names {
		out, err := srv.Decompress(n, enc)
		if j == k {
			verifAssert("C12.dispatch.matching-decoder-restores", err == nil && verifSameBytes(out, orig))
		} else {
			verifAssert("C12.dispatch.other-decoder-rejects", err != nil)
		}
	}
	same, err := srv.Decompress("", orig)
	verifAssert("C12.dispatch.identity", err == nil && verifSameBytes(same, orig))
	_, err = srv.Decompress("deflate", orig)
	verifAssert("C12.dispatch.unknown-is-error", err != nil)
	verifReach("C12.dispatch.end")
}

// An encoded stream handed back to the caller stays what it is: a later encode (of anything) does not
// overwrite it — the caller keeps it for the lifetime of a cache entry (GzipBody / BrBody).
func Harness_C12_results_not_shared() {
	VerifCodecStubs = false
	d1 := verifBytes("d1", 3)
	d2 := verifBytes("d2", 3)
	which := verifChoice("codec", 2)
	enc := func(d []byte) ([]byte, error) {
		if which == 0 {
			return doGzip(d, 6)
		}
		return doBrotli(d, 6)
	}
	verifWriters = nil
	o1, e1 := enc(d1)
	verifAssume(e1 == nil)
	keep := append([]byte{}, o1...)
	enc(d2)
	same := len(keep) == len(o1)
	for i := 0; same && i < len(keep); i++ {
		same = keep[i] == o1[i]
	}
	verifAssert("C12.encoded-result-is-not-overwritten-by-a-later-encode", same)
	verifReach("C12.not-shared.end")
}
