//go:build verif_harness

package compress

import "errors"

// Codec contracts (DESIGN.md §4): encoded payloads are abstract byte strings of arbitrary length
// (>= 1) that remember what they encode; dec_e(Enc_e(x, level)) = x; decoding anything else fails.
// The real gzip/brotli/lz4/zstd/snappy implementations are outside the claim.

// VerifCodecStubs switches the stubs on (harnesses that execute the real wrappers leave it off).
var VerifCodecStubs bool

type verifEncoded struct {
	enc   []byte
	orig  []byte
	kind  string
	level int
}

var verifTable []verifEncoded

// ghost counters
var VerifEncodeCalls int
var VerifDecodeCalls int
var VerifLastLevel int
var VerifDecodeFails bool // make the next decode of a registered payload fail? (not used: decoders are total on valid input)

var errVerifBadStream = errors.New("corrupt stream")

// VerifEncode registers and returns an abstract payload of the given kind for orig.
func VerifEncode(kind string, orig []byte, level int) []byte {
	enc := verifBytesSym("enc."+kind, 6)
	verifAssume(len(enc) >= 1)
	verifTable = append(verifTable, verifEncoded{enc: enc, orig: orig, kind: kind, level: level})
	return enc
}

// VerifOriginalOf returns what an abstract payload encodes (nil, "" when it is not a registered payload).
func VerifOriginalOf(b []byte) ([]byte, string) {
	for _, e := range verifTable {
		if verifSameBacking(e.enc, b) && len(e.enc) == len(b) {
			return e.orig, e.kind
		}
	}
	return nil, ""
}

func verifDecode(kind string, buf []byte) ([]byte, error) {
	VerifDecodeCalls++
	orig, k := VerifOriginalOf(buf)
	if k != kind {
		return nil, errVerifBadStream
	}
	return orig, nil
}

//verif:hook github.com/vicanso/pike/compress.doGzip
func verifHook_doGzip(buf []byte, level int) ([]byte, error) {
	if !VerifCodecStubs {
		return doGzip(buf, level)
	}
	VerifEncodeCalls++
	VerifLastLevel = level
	return VerifEncode("gzip", buf, level), nil
}

//verif:hook github.com/vicanso/pike/compress.doBrotli
func verifHook_doBrotli(buf []byte, level int) ([]byte, error) {
	if !VerifCodecStubs {
		return doBrotli(buf, level)
	}
	VerifEncodeCalls++
	VerifLastLevel = level
	return VerifEncode("br", buf, level), nil
}

//verif:hook github.com/vicanso/pike/compress.doGunzip
func verifHook_doGunzip(buf []byte) ([]byte, error) {
	if !VerifCodecStubs {
		return doGunzip(buf)
	}
	return verifDecode("gzip", buf)
}

//verif:hook github.com/vicanso/pike/compress.doBrotliDecode
func verifHook_doBrotliDecode(buf []byte) ([]byte, error) {
	if !VerifCodecStubs {
		return doBrotliDecode(buf)
	}
	return verifDecode("br", buf)
}

//verif:hook github.com/vicanso/pike/compress.doLZ4Decode
func verifHook_doLZ4Decode(buf []byte) ([]byte, error) {
	if !VerifCodecStubs {
		return doLZ4Decode(buf)
	}
	return verifDecode("lz4", buf)
}

//verif:hook github.com/vicanso/pike/compress.doSnappyDecode
func verifHook_doSnappyDecode(buf []byte) ([]byte, error) {
	if !VerifCodecStubs {
		return doSnappyDecode(buf)
	}
	return verifDecode("snz", buf)
}

//verif:hook github.com/vicanso/pike/compress.doZSTDDecode
func verifHook_doZSTDDecode(buf []byte) ([]byte, error) {
	if !VerifCodecStubs {
		return doZSTDDecode(buf)
	}
	return verifDecode("zst", buf)
}
