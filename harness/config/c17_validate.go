//go:build verif_harness

package config

import (
	"errors"
	"strings"

	"github.com/go-playground/validator/v10"
)

// C17 — accepted configurations are closed under references.
//
// The struct validator (go-playground/validator, reflection driven) is replaced by a stub whose
// contract is read from the struct tags of the *current* config.go at run time: `required` means
// non-zero, `gt=0` means positive, `dive` descends into elements.  String well-formedness tags
// (xName, xDuration, url, ...) are library predicates and outside the claim.

var errVerifInvalid = errors.New("struct validation failed")

func c17Required(sample interface{}, field string) bool {
	return strings.Contains(verifFieldTag(sample, field), "required")
}

//verif:hook (*github.com/go-playground/validator/v10.Validate).Struct
func verifHook_validatorStruct(v *validator.Validate, s interface{}) error {
	c, ok := s.(*PikeConfig)
	if !ok {
		return nil
	}
	dive := func(field string) bool { return strings.Contains(verifFieldTag(PikeConfig{}, field), "dive") }
	if dive("Compresses") {
		for _, x := range c.Compresses {
			if c17Required(CompressConfig{}, "Name") && x.Name == "" {
				return errVerifInvalid
			}
		}
	}
	if dive("Caches") {
		for _, x := range c.Caches {
			if c17Required(CacheConfig{}, "Name") && x.Name == "" {
				return errVerifInvalid
			}
			if c17Required(CacheConfig{}, "Size") && x.Size == 0 {
				return errVerifInvalid
			}
			if strings.Contains(verifFieldTag(CacheConfig{}, "Size"), "gt=0") && x.Size <= 0 {
				return errVerifInvalid
			}
			if c17Required(CacheConfig{}, "HitForPass") && x.HitForPass == "" {
				return errVerifInvalid
			}
		}
	}
	if dive("Upstreams") {
		for _, x := range c.Upstreams {
			if c17Required(UpstreamConfig{}, "Name") && x.Name == "" {
				return errVerifInvalid
			}
			if c17Required(UpstreamConfig{}, "Servers") && len(x.Servers) == 0 {
				return errVerifInvalid
			}
		}
	}
	if dive("Locations") {
		for _, x := range c.Locations {
			if c17Required(LocationConfig{}, "Name") && x.Name == "" {
				return errVerifInvalid
			}
			if c17Required(LocationConfig{}, "Upstream") && x.Upstream == "" {
				return errVerifInvalid
			}
		}
	}
	if dive("Servers") {
		for _, x := range c.Servers {
			if c17Required(ServerConfig{}, "Addr") && x.Addr == "" {
				return errVerifInvalid
			}
			if c17Required(ServerConfig{}, "Locations") && len(x.Locations) == 0 {
				return errVerifInvalid
			}
			if c17Required(ServerConfig{}, "Cache") && x.Cache == "" {
				return errVerifInvalid
			}
		}
	}
	return nil
}

// a one-byte name with a symbolic letter a..c (no case split: comparisons stay symbolic)
func c17Name(n string) string {
	b := verifByte(n)
	verifAssume(b >= 'a')
	verifAssume(b <= 'c')
	return string([]byte{b})
}

// like c17Name, but may also be empty (unset)
func c17OptName(n string) string {
	if verifBool(n + ".unset") {
		return ""
	}
	return c17Name(n)
}

func c17In(x string, names []string) bool {
	ok := false
	for _, n := range names {
		ok = verifOr(ok, n == x)
	}
	return ok
}

func Harness_C17_validate() {
	c := &PikeConfig{}
	var upNames, locNames, cacheNames, compNames []string
	nu := 1 + verifChoice("nUpstreams", 2)
	for i := 0; i < nu; i++ {
		n := c17Name("upstream")
		upNames = append(upNames, n)
		c.Upstreams = append(c.Upstreams, UpstreamConfig{Name: n, Servers: []UpstreamServerConfig{{Addr: "http://127.0.0.1:1"}}})
	}
	nl := 1 + verifChoice("nLocations", 2)
	for i := 0; i < nl; i++ {
		n := c17Name("location")
		locNames = append(locNames, n)
		c.Locations = append(c.Locations, LocationConfig{Name: n, Upstream: c17Name("location.upstream")})
	}
	nc := verifChoice("nCaches", 2)
	for i := 0; i < nc; i++ {
		n := c17Name("cache")
		cacheNames = append(cacheNames, n)
		c.Caches = append(c.Caches, CacheConfig{Name: n, Size: 10, HitForPass: "5m"})
	}
	if verifBool("hasCompress") {
		n := c17Name("compress")
		compNames = append(compNames, n)
		c.Compresses = append(c.Compresses, CompressConfig{Name: n})
	}
	ns := 1
	for i := 0; i < ns; i++ {
		s := ServerConfig{Addr: ":80", Cache: c17OptName("server.cache"), Compress: c17OptName("server.compress")}
		nsl := verifChoice("server.nLocations", 3)
		for j := 0; j < nsl; j++ {
			s.Locations = append(s.Locations, c17Name("server.location"))
		}
		c.Servers = append(c.Servers, s)
	}

	err := c.Validate()

	// oracle
	closed := true
	for _, l := range c.Locations {
		closed = verifAnd(closed, c17In(l.Upstream, upNames))
	}
	for _, s := range c.Servers {
		for _, n := range s.Locations {
			closed = verifAnd(closed, c17In(n, locNames))
		}
		closed = verifAnd(closed, c17In(s.Cache, cacheNames))
		closed = verifAnd(closed, verifOr(s.Compress == "", c17In(s.Compress, compNames)))
		closed = verifAnd(closed, verifAnd(len(s.Locations) > 0, s.Cache != ""))
	}
	for _, x := range c.Caches {
		closed = verifAnd(closed, x.Size > 0)
	}
	if err == nil {
		verifReach("C17.accepted")
		verifAssert("C17.accepted-is-closed-under-references", closed)
	} else {
		verifReach("C17.rejected")
		verifAssert("C17.closed-and-wellformed-is-accepted", verifNot(closed) || namesEmpty(c))
		// each dangling kind yields its specific error
		verifAssert("C17.error-kind", err == errVerifInvalid || err == ErrUpstreamNotFound || err == ErrLocationNotFound || err == ErrCacheNotFound || err == ErrCompressNotFound)
	}
}

// namesEmpty: some required name is empty (then the struct validator rejects although references may be closed)
func namesEmpty(c *PikeConfig) bool {
	e := false
	for _, x := range c.Upstreams {
		e = verifOr(e, x.Name == "")
	}
	for _, x := range c.Locations {
		e = verifOr(e, verifOr(x.Name == "", x.Upstream == ""))
	}
	for _, x := range c.Caches {
		e = verifOr(e, x.Name == "")
	}
	for _, x := range c.Compresses {
		e = verifOr(e, x.Name == "")
	}
	return e
}

// C17 (round trip, structural part only): the YAML library is outside the claim, but which fields it
// may see is pike's code.  Every config field that the rest of pike reads when a configuration is
// applied is saved under a yaml key of its own (computed from the SSA and the struct tags of the
// current tree by the engine).
func Harness_C17_saved_fields() {
	verifAssert("C17.every-applied-config-field-is-saved-under-its-own-key", verifConfigFieldsNotPersisted() == 0)
	verifReach("C17.saved-fields.end")
}
