//go:build verif_harness

package server

import "net/http"

// C06 — the cache key is an injective function of (method, host, request-URI), built in a
// fresh buffer of exactly the needed size.

func c06NoSpace(s string) {
	for i := 0; i < len(s); i++ {
		verifAssume(s[i] != ' ')
	}
}

func c06BytesEq(a, b []byte) bool {
	if len(a) != len(b) {
		return false
	}
	eq := true
	for i := 0; i < len(a); i++ {
		eq = verifAnd(eq, a[i] == b[i])
	}
	return eq
}

func Harness_C06_injective() {
	// quick: method/host <= 2, URI <= 3 bytes; thorough: one byte more each
	t := verifTier()
	m1 := verifString("m1", 2+t)
	h1 := verifString("h1", 2+t)
	u1 := verifString("u1", 3+t)
	m2 := verifString("m2", 2+t)
	h2 := verifString("h2", 2+t)
	u2 := verifString("u2", 3+t)
	// HTTP syntax: method is a token and Host contains no SP (net/http rejects such request lines);
	// the request-URI of a served request is never empty
	c06NoSpace(m1)
	c06NoSpace(h1)
	c06NoSpace(m2)
	c06NoSpace(h2)
	verifAssume(len(u1) > 0 && len(u2) > 0)
	r1 := &http.Request{Method: m1, Host: h1, RequestURI: u1}
	r2 := &http.Request{Method: m2, Host: h2, RequestURI: u2}
	mark := verifHeapMark()
	k1 := getKey(r1)
	k2 := getKey(r2)
	same := verifAnd(m1 == m2, verifAnd(h1 == h2, u1 == u2))
	verifAssert("C06.key-injective", verifImplies(c06BytesEq(k1, k2), same))
	verifAssert("C06.key-deterministic", verifImplies(same, c06BytesEq(k1, k2)))
	verifAssert("C06.key-fresh-buffer", verifFreshBacking(k1, mark) && verifFreshBacking(k2, mark) && !verifSameBacking(k1, k2))
	verifReach("C06.injective.end")
}

// GET and HEAD of the same URL are different keys; requestIsPass lets exactly GET and HEAD be cached.
func Harness_C06_methods() {
	h := verifString("h", 2)
	u := verifString("u", 2)
	verifAssume(len(u) > 0)
	g := getKey(&http.Request{Method: "GET", Host: h, RequestURI: u})
	hd := getKey(&http.Request{Method: "HEAD", Host: h, RequestURI: u})
	verifAssert("C06.get-head-distinct", !c06BytesEq(g, hd))
	m := verifString("m", 4)
	pass := requestIsPass(&http.Request{Method: m})
	verifAssert("C06.pass-iff-not-get-head", pass == verifNot(verifOr(m == "GET", m == "HEAD")))
	verifReach("C06.methods.end")
}
