//go:build verif_harness

package server

import "net/http"

// C03 — differential harness for getCacheMaxAge against a short reference model.
//
// Inputs: Cache-Control as one or two header lines of arbitrary ASCII bytes, Age
// (arbitrary ASCII bytes), Set-Cookie (arbitrary, presence is what matters).
// Bounds are the `max*` arguments; non-ASCII header bytes are outside the claim.

func c03IsDigit(b byte) bool { return verifAnd(b >= '0', b <= '9') }

func c03Lower(b byte) byte {
	return verifIteByte(verifAnd(b >= 'A', b <= 'Z'), b+32, b)
}

// occurrence of word at position p of the lower-cased bytes (p+len(word) <= len(lc) checked by caller)
func c03WordAt(lc []byte, p int, word string) bool {
	ok := true
	for j := 0; j < len(word); j++ {
		ok = verifAnd(ok, lc[p+j] == word[j])
	}
	return ok
}

func c03Contains(lc []byte, word string) bool {
	found := false
	for p := 0; p+len(word) <= len(lc); p++ {
		found = verifOr(found, c03WordAt(lc, p, word))
	}
	return found
}

// value of the maximal digit run starting at q (runs shorter than 19 digits cannot overflow;
// the harness bounds keep them shorter)
func c03DigitsAt(lc []byte, q int) int {
	acc := 0
	run := true
	for j := q; j < len(lc); j++ {
		run = verifAnd(run, c03IsDigit(lc[j]))
		acc = verifIteInt(run, acc*10+int(lc[j]-'0'), acc)
	}
	return acc
}

// leftmost occurrence of word followed by at least one digit
func c03Directive(lc []byte, word string) (found bool, val int) {
	for p := len(lc) - len(word) - 1; p >= 0; p-- {
		m := verifAnd(c03WordAt(lc, p, word), c03IsDigit(lc[p+len(word)]))
		val = verifIteInt(m, c03DigitsAt(lc, p+len(word)), val)
		found = verifOr(found, m)
	}
	return
}

// signed decimal with optional sign; anything else counts as 0 (ignored).  Fewer than 19
// characters cannot overflow an int64, so no saturation is involved (bound of this oracle).
func c03Age(age string) int {
	if len(age) == 0 {
		return 0
	}
	neg := age[0] == '-'
	signed := verifOr(neg, age[0] == '+')
	ok := verifOr(signed, c03IsDigit(age[0]))
	if len(age) == 1 {
		ok = c03IsDigit(age[0])
	}
	acc := verifIteInt(signed, 0, int(age[0]-'0'))
	for j := 1; j < len(age); j++ {
		ok = verifAnd(ok, c03IsDigit(age[j]))
		acc = acc*10 + int(age[j]-'0')
	}
	v := verifIteInt(neg, -acc, acc)
	return verifIteInt(ok, v, 0)
}

func c03ASCII(s string) {
	for i := 0; i < len(s); i++ {
		verifAssume(s[i] < 0x80)
	}
}

func c03Run(maxCC1, maxCC2, maxAge, maxCookie int) {
	cc1 := verifString("cc1", maxCC1)
	c03ASCII(cc1)
	twoLines := false
	cc2 := ""
	if maxCC2 > 0 {
		twoLines = verifBool("twoLines")
		if twoLines {
			cc2 = verifString("cc2", maxCC2)
			c03ASCII(cc2)
		}
	}
	age := verifString("age", maxAge)
	c03ASCII(age)
	cookie := ""
	if maxCookie > 0 {
		cookie = verifString("cookie", maxCookie)
	}

	h := http.Header{}
	if twoLines {
		h["Cache-Control"] = []string{cc1, cc2}
	} else if len(cc1) > 0 || (maxCookie > 0 && verifBool("ccPresentButEmpty")) {
		h["Cache-Control"] = []string{cc1}
	}
	if len(age) > 0 {
		h["Age"] = []string{age}
	}
	if len(cookie) > 0 {
		h["Set-Cookie"] = []string{cookie}
	}
	// headers that must not influence the decision
	if maxCookie > 0 && verifBool("extra") {
		h["Expires"] = []string{"Thu, 01 Dec 2099 16:00:00 GMT"}
		h["Last-Modified"] = []string{"Thu, 01 Dec 1994 16:00:00 GMT"}
		h["Etag"] = []string{`"x"`}
	}

	got := getCacheMaxAge(h)

	// ---- reference model ----
	joined := cc1
	if twoLines {
		joined = cc1 + "," + cc2
	}
	lc := make([]byte, len(joined))
	for i := 0; i < len(joined); i++ {
		lc[i] = c03Lower(joined[i])
	}
	prohibited := verifOr(c03Contains(lc, "no-cache"), verifOr(c03Contains(lc, "no-store"), c03Contains(lc, "private")))
	sFound, sVal := c03Directive(lc, "s-maxage=")
	mFound, mVal := c03Directive(lc, "max-age=")
	base := verifIteInt(sFound, sVal, verifIteInt(mFound, mVal, 0))
	lifetime := base - c03Age(age)
	shareable := verifAnd(len(cookie) == 0, verifAnd(len(joined) > 0, verifNot(prohibited)))

	verifAssert("C03.stored-only-if-shareable", verifImplies(got > 0, shareable))
	verifAssert("C03.stored-only-if-positive-lifetime", verifImplies(got > 0, lifetime > 0))
	// a shareable response is stored for exactly the origin's lifetime (any non-positive value means "not stored")
	verifAssert("C03.lifetime-is-smaxage-else-maxage-minus-age", verifImplies(shareable, verifIteBool(lifetime > 0, got == lifetime, got <= 0)))
	verifAssert("C03.not-shareable-is-not-stored", verifImplies(verifNot(shareable), got <= 0))
	verifReach("C03.maxage.end")
}

// directives: all Cache-Control strings up to 13 bytes (one line), Age up to 2 bytes
func Harness_C03_maxage_quick() {
	c03Run(13, 0, 2, 0)
}

// Set-Cookie, empty-but-present Cache-Control, unrelated headers, Age up to 3 bytes
func Harness_C03_maxage_presence() {
	c03Run(9, 0, 3, 1)
}

func Harness_C03_maxage_twolines() {
	c03Run(9, 9, 1, 0)
}

func Harness_C03_maxage_thorough() {
	c03Run(15, 0, 2, 0)
}

func Harness_C03_maxage_tiny() {
	c03Run(10, 0, 2, 1)
}

// longer Age values (sign, non-numeric, up to 9 bytes), short Cache-Control
func Harness_C03_age_overflow() {
	digits := verifString("digits", 3)
	c03ASCII(digits)
	cc := "max-age=" + digits
	age := verifString("age", 9)
	c03ASCII(age)
	h := http.Header{}
	h["Cache-Control"] = []string{cc}
	if len(age) > 0 {
		h["Age"] = []string{age}
	}
	got := getCacheMaxAge(h)
	lc := []byte(cc)
	mFound, mVal := c03Directive(lc, "max-age=")
	base := verifIteInt(mFound, mVal, 0)
	want := base - c03Age(age)
	verifAssert("C03.age-arith", verifIteBool(want > 0, got == want, got <= 0))
	verifReach("C03.age.end")
}
