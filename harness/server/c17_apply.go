//go:build verif_harness

package server

import (
	"github.com/vicanso/pike/cache"
	"github.com/vicanso/pike/config"
	"github.com/vicanso/pike/location"
)

// C17 (applied) — "any accepted configuration, once applied, lets every server resolve everything
// it needs": two configurations that are closed under references are applied one after the other
// the way main.update does (cache.ResetDispatchers, location.Reset, server.Reset); the second one
// re-uses a listening address of the first, renames what it refers to, and drops the old entries.
// Afterwards every server of the second configuration finds its cache dispatcher and a location
// for a request that its configuration routes (no "dispatcher not found" / "no location" answers).
// Names are one symbolic letter each, so equal and different names are both covered.

func c17Apply(caches []config.CacheConfig, locs []config.LocationConfig, servers []config.ServerConfig) {
	cache.ResetDispatchers(caches)
	location.Reset(locs)
	Reset(servers)
	verifRunSpawned()
}

func Harness_C17_apply_resolves() {
	cacheA, cacheB := c16Name("A.cache"), c16Name("B.cache")
	locA, locB := c16Name("A.location"), c16Name("B.location")
	addrs := []string{":80", ":81"}
	// configuration A: one or two servers
	var serversA, serversB []config.ServerConfig
	for _, a := range addrs {
		if verifBool("A.has" + a) {
			serversA = append(serversA, config.ServerConfig{Addr: a, Cache: cacheA, Locations: []string{locA}})
		}
		if verifBool("B.has" + a) {
			serversB = append(serversB, config.ServerConfig{Addr: a, Cache: cacheB, Locations: []string{locB}})
		}
	}
	c17Apply(
		[]config.CacheConfig{{Name: cacheA, Size: 16}},
		[]config.LocationConfig{{Name: locA, Upstream: "u"}},
		serversA)
	c17Apply(
		[]config.CacheConfig{{Name: cacheB, Size: 16}},
		[]config.LocationConfig{{Name: locB, Upstream: "u"}},
		serversB)
	for _, a := range addrs {
		in := false
		for _, sc := range serversB {
			if sc.Addr == a {
				in = true
			}
		}
		s := Get(a)
		verifAssert("C17.applied.registry-has-exactly-the-configured-servers", (s != nil) == in)
		if s == nil {
			continue
		}
		verifAssert("C17.applied.server-finds-its-cache", cache.GetDispatcher(s.GetCache()) != nil)
		l := location.Get("h", "/x", s.GetLocations()...)
		verifAssert("C17.applied.server-finds-a-location", l != nil)
		verifReach("C17.applied.server")
	}
	verifReach("C17.applied.end")
}
