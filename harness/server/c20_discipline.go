//go:build verif_harness

package server

// C20 (lock discipline, sequential) — the reloadable settings of a server are only read and written
// with the server's mutex held, so a request never sees a half-applied Update.
func Harness_C20_server_discipline() {
	s := NewServer(ServerOption{Addr: ":80", Cache: "a", Compress: "p", Locations: []string{"l"}})
	verifWatchLock(s, s.mutex, "mutex", "logFormat", "addr", "ln", "e", "listenAddr", "listening")
	s.GetCache()
	s.GetLocations()
	s.GetCompress()
	s.Update(ServerOption{Addr: ":80", Cache: "b", Compress: "q", Locations: []string{"m"}, CompressMinLength: verifInt("min")})
	s.GetCache()
	s.GetLocations()
	name, minLength, _ := s.GetCompress()
	verifAssert("C20.server-settings-only-under-its-lock", verifUnlockedAccesses() == 0)
	verifAssert("C20.server-update-applied", name == "q" && minLength != 0 && s.GetCache() == "b")
	verifReach("C20.server-discipline.end")
}

// What a getter hands to a request is a snapshot: a reload that happens while the request is still
// using it (the getters release the lock before the value is used: the proxy iterates the location
// names after GetLocations() returned) must not change it in place.  A later Update therefore
// publishes new values and never writes into the old ones.
func Harness_C20_server_snapshots() {
	s := NewServer(ServerOption{Addr: ":80", Cache: "a", Locations: []string{"l1", "l2"}})
	snap := s.GetLocations()
	keep := append([]string{}, snap...)
	lists := [][]string{{}, {"x1"}, {"x1", "x2"}, {"x1", "x2", "x3"}}
	newLocs := lists[verifChoice("newLen", len(lists))]
	s.Update(ServerOption{Addr: ":80", Cache: "b", Locations: newLocs})
	same := len(snap) == len(keep)
	for i := 0; same && i < len(keep); i++ {
		same = snap[i] == keep[i]
	}
	verifAssert("C20.locations-handed-to-a-request-survive-a-reload", same)
	cur := s.GetLocations()
	pub := len(cur) == len(newLocs)
	for i := 0; pub && i < len(newLocs); i++ {
		pub = cur[i] == newLocs[i]
	}
	verifAssert("C20.reload-publishes-the-new-locations", pub)
	verifReach("C20.server-snapshots.end")
}
