//go:build verif_harness

package server

// C20 (lock discipline, sequential) — the reloadable settings of a server are only read and written
// with the server's mutex held, so a request never sees a half-applied Update.
func Harness_C20_server_discipline() {
	s := NewServer(ServerOption{Addr: ":80", Cache: "a", Compress: "p", Locations: []string{"l"}})
	verifWatchLock(s, s.mutex, "mutex", "logFormat", "addr", "ln", "e", "listenAddr", "listening")
	s.GetCache()
	s.GetLocations()
	s.GetCompress()
	s.Update(ServerOption{Addr: ":80", Cache: "b", Compress: "q", Locations: []string{"m"}, CompressMinLength: verifInt("min")})
	s.GetCache()
	s.GetLocations()
	name, minLength, _ := s.GetCompress()
	verifAssert("C20.server-settings-only-under-its-lock", verifUnlockedAccesses() == 0)
	verifAssert("C20.server-update-applied", name == "q" && minLength != 0 && s.GetCache() == "b")
	verifReach("C20.server-discipline.end")
}
