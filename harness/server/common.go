//go:build verif_harness

package server

import "net/http"

// shared by the server-package harnesses (kept apart so that a harness file that stops compiling
// after a refactor does not take the others with it)

type c15Writer struct{ h http.Header }

func (w *c15Writer) Header() http.Header         { return w.h }
func (w *c15Writer) Write(b []byte) (int, error) { return len(b), nil }
func (w *c15Writer) WriteHeader(int)             {}
