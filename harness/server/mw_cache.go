//go:build verif_harness

package server

import (
	"errors"
	"net/http"

	"github.com/vicanso/elton"
	"github.com/vicanso/pike/cache"
	"github.com/vicanso/pike/config"
)

// The cache middleware (NewCache) for one request and a follow-up request on the same key, with
// every downstream outcome: cacheable, lifetime without a response object, uncacheable, error,
// panic.  Decided here: non-GET/HEAD requests are passed exactly once and never touch the cache;
// the label is truthful (hit <=> the downstream was not contacted); whatever the outcome of a
// fetching request, the key is not left in the fetching state (C02: "the next request after a
// failed fetch is served normally"); lifetime handed to the entry = lifetime set by the proxy.

var errMW = errors.New("downstream failed")

const (
	mwCacheable = iota
	mwLifetimeNoResponse
	mwUncacheable
	mwError
	mwPanic
)

var mwLastAge int

func mwRequest(s *server, method string, outcome int, maxAge int, resp *cache.HTTPResponse) (label cache.Status, downstream int, err error, panicked bool) {
	req := &http.Request{Method: method, Host: "h", RequestURI: "/a"}
	c := elton.NewContext(&c15Writer{h: http.Header{}}, req)
	c.Next = func() error {
		downstream++
		switch outcome {
		case mwCacheable:
			setHTTPCacheMaxAge(c, maxAge)
			setHTTPResp(c, resp)
		case mwLifetimeNoResponse:
			setHTTPCacheMaxAge(c, maxAge)
		case mwUncacheable:
			setHTTPResp(c, resp)
		case mwError:
			return errMW
		case mwPanic:
			panic("handler panic")
		}
		return nil
	}
	panicked = verifExpectPanic(func() { err = NewCache(s)(c) })
	label = getCacheStatus(c)
	if label == cache.StatusHit {
		verifAssert("MW.hit-sets-response-and-age", getHTTPResp(c) != nil && getHTTPRespAge(c) >= 0)
		mwLastAge = getHTTPRespAge(c)
	}
	return
}

func Harness_MW_cache() {
	cache.ResetDispatchers([]config.CacheConfig{{Name: "c", Size: 16, HitForPass: "5m"}})
	s := NewServer(ServerOption{Addr: ":80", Cache: "c"})
	methods := []string{"GET", "HEAD", "POST", "PUT", "DELETE", "get"}
	method := methods[verifChoice("method", len(methods))]
	outcome := verifChoice("outcome", 5)
	maxAge := verifInt("maxAge")
	verifAssume(maxAge >= 1)
	verifAssume(maxAge < 1<<31)
	resp := &cache.HTTPResponse{StatusCode: 200}

	label, n1, err, panicked := mwRequest(s, method, outcome, maxAge, resp)
	verifAssert("C03.every-request-forwarded-at-most-once", n1 <= 1)
	cacheableMethod := method == "GET" || method == "HEAD"
	if !cacheableMethod {
		verifReach("MW.passed")
		verifAssert("C03.non-get-head-is-passed-exactly-once", label == cache.StatusPassed && n1 == 1)
		// nothing was created or changed in the cache for it: a GET of the same URL is still cold
		l2, _, _, _ := mwRequest(s, "GET", mwUncacheable, 1, resp)
		verifAssert("C03.passed-request-leaves-cache-untouched", l2 == cache.StatusFetching)
		return
	}
	verifReach("MW.cold")
	verifAssert("C01.cold-key-is-fetched-by-this-request", label == cache.StatusFetching && n1 == 1)
	verifAssert("C02.panic-propagates", panicked == (outcome == mwPanic))
	verifAssert("C02.error-propagates", (err != nil) == (outcome == mwError))

	// the follow-up request on the same key (clock free: the entry may have expired meanwhile)
	label2, n2, _, _ := mwRequest(s, method, mwUncacheable, 1, resp)
	// (a key left in the fetching state would park this second request: reported as no-deadlock)
	switch label2 {
	case cache.StatusHit:
		verifReach("MW.second.hit")
		verifAssert("C03.hit-only-after-a-cacheable-fetch", outcome == mwCacheable)
		verifAssert("C03.hit-never-contacts-downstream", n2 == 0)
		// the Age the client sees never exceeds the lifetime the entry was stored with
		verifAssert("C04.mw.age-le-T", mwLastAge <= maxAge)
	case cache.StatusHitForPass:
		verifReach("MW.second.pass")
		verifAssert("C07.uncacheable-or-failed-fetch-marks-hit-for-pass", outcome != mwCacheable)
		verifAssert("C03.non-hit-contacts-downstream-exactly-once", n2 == 1)
	case cache.StatusFetching:
		// only possible when the stored entry or the marker has lapsed in the meantime
		verifReach("MW.second.refetch")
		verifAssert("C03.non-hit-contacts-downstream-exactly-once", n2 == 1)
	default:
		verifAssert("C03.label-is-decided", false)
	}
}
