//go:build verif_harness

package server

import (
	"errors"
	"net/http"

	"github.com/vicanso/elton"
	"github.com/vicanso/pike/cache"
	"github.com/vicanso/pike/config"
)

// The cache middleware (NewCache) for one request and a follow-up request on the same key, with
// every downstream outcome: cacheable, lifetime without a response object, uncacheable, error,
// panic.  Decided here: non-GET/HEAD requests are passed exactly once and never touch the cache;
// the label is truthful (hit <=> the downstream was not contacted); whatever the outcome of a
// fetching request, the key is not left in the fetching state (C02: "the next request after a
// failed fetch is served normally"); lifetime handed to the entry = lifetime set by the proxy.

var errMW = errors.New("downstream failed")

const (
	mwCacheable = iota
	mwLifetimeNoResponse
	mwUncacheable
	mwError
	mwPanic
)

var mwLastAge int

// mwInside, when set, runs while the request is "at the upstream" (inside c.Next): other requests
// and time passing during the upstream round trip; it is consumed by the request that runs it.
var mwInside func()

func mwRequest(s *server, method string, outcome int, maxAge int, resp *cache.HTTPResponse) (label cache.Status, downstream int, err error, panicked bool) {
	return mwRequestTo(s, method, "h", "/a", outcome, maxAge, resp)
}

var mwLastResp *cache.HTTPResponse

func mwRequestTo(s *server, method, host, uri string, outcome int, maxAge int, resp *cache.HTTPResponse) (label cache.Status, downstream int, err error, panicked bool) {
	req := &http.Request{Method: method, Host: host, RequestURI: uri}
	c := elton.NewContext(&c15Writer{h: http.Header{}}, req)
	c.Next = func() error {
		downstream++
		if f := mwInside; f != nil {
			mwInside = nil
			f()
		}
		switch outcome {
		case mwCacheable:
			setHTTPCacheMaxAge(c, maxAge)
			setHTTPResp(c, resp)
		case mwLifetimeNoResponse:
			setHTTPCacheMaxAge(c, maxAge)
		case mwUncacheable:
			setHTTPResp(c, resp)
		case mwError:
			return errMW
		case mwPanic:
			panic("handler panic")
		}
		return nil
	}
	panicked = verifExpectPanic(func() { err = NewCache(s)(c) })
	label = getCacheStatus(c)
	mwLastResp = getHTTPResp(c)
	if label == cache.StatusHit {
		verifAssert("MW.hit-sets-response-and-age", getHTTPResp(c) != nil && getHTTPRespAge(c) >= 0)
		mwLastAge = getHTTPRespAge(c)
	}
	return
}

func Harness_MW_cache() {
	cache.ResetDispatchers([]config.CacheConfig{{Name: "c", Size: 16, HitForPass: "5m"}})
	s := NewServer(ServerOption{Addr: ":80", Cache: "c"})
	methods := []string{"GET", "HEAD", "POST", "PUT", "DELETE", "get"}
	method := methods[verifChoice("method", len(methods))]
	outcome := verifChoice("outcome", 5)
	// the lifetime the proxy left in the context: any value, also zero and negative ones (an upstream
	// Age larger than max-age); only a positive one makes the response storable
	maxAge := verifInt("maxAge")
	verifAssume(maxAge > -(1 << 31))
	verifAssume(maxAge < 1<<31)
	resp := &cache.HTTPResponse{StatusCode: 200}

	label, n1, err, panicked := mwRequest(s, method, outcome, maxAge, resp)
	verifAssert("C03.every-request-forwarded-at-most-once", n1 <= 1)
	cacheableMethod := method == "GET" || method == "HEAD"
	if !cacheableMethod {
		verifReach("MW.passed")
		verifAssert("C03.non-get-head-is-passed-exactly-once", label == cache.StatusPassed && n1 == 1)
		// nothing was created or changed in the cache for it: a GET of the same URL is still cold
		l2, _, _, _ := mwRequest(s, "GET", mwUncacheable, 1, resp)
		verifAssert("C03.passed-request-leaves-cache-untouched", l2 == cache.StatusFetching)
		return
	}
	verifReach("MW.cold")
	verifAssert("C01.cold-key-is-fetched-by-this-request", label == cache.StatusFetching && n1 == 1)
	verifAssert("C02.panic-propagates", panicked == (outcome == mwPanic))
	verifAssert("C02.error-propagates", (err != nil) == (outcome == mwError))
	// what the fetch left behind, before the clock moves on: stored as a hit iff the downstream set a
	// positive lifetime and a response; in every other case the key is marked hit-for-pass (never
	// left fetching, never stored)
	st := cache.GetDispatcher("c").GetHTTPCache(getKey(&http.Request{Method: method, Host: "h", RequestURI: "/a"})).GetStatus()
	storable := verifAnd(outcome == mwCacheable, maxAge >= 1)
	verifAssert("C03.stored-iff-positive-lifetime-and-response", (st == cache.StatusHit) == storable)
	verifAssert("C02.fetch-always-ends-in-hit-or-hit-for-pass", st == cache.StatusHit || st == cache.StatusHitForPass)

	// the follow-up request on the same key (clock free: the entry may have expired meanwhile)
	label2, n2, _, _ := mwRequest(s, method, mwUncacheable, 1, resp)
	// (a key left in the fetching state would park this second request: reported as no-deadlock)
	switch label2 {
	case cache.StatusHit:
		verifReach("MW.second.hit")
		verifAssert("C03.hit-only-after-a-cacheable-fetch", outcome == mwCacheable && maxAge >= 1)
		verifAssert("C03.hit-never-contacts-downstream", n2 == 0)
		// the Age the client sees never exceeds the lifetime the entry was stored with
		verifAssert("C04.mw.age-le-T", mwLastAge <= maxAge)
	case cache.StatusHitForPass:
		verifReach("MW.second.pass")
		verifAssert("C07.uncacheable-or-failed-fetch-marks-hit-for-pass", outcome != mwCacheable || maxAge < 1)
		verifAssert("C03.non-hit-contacts-downstream-exactly-once", n2 == 1)
	case cache.StatusFetching:
		// only possible when the stored entry or the marker has lapsed in the meantime
		verifReach("MW.second.refetch")
		verifAssert("C03.non-hit-contacts-downstream-exactly-once", n2 == 1)
	default:
		verifAssert("C03.label-is-decided", false)
	}
}

func mwEntryBytes(method string) (cache.Status, []byte) {
	e := cache.GetDispatcher("c").GetHTTPCache(getKey(&http.Request{Method: method, Host: "h", RequestURI: "/a"}))
	st := e.GetStatus()
	if st != cache.StatusHitForPass {
		return st, nil
	}
	b, _ := e.Bytes()
	return st, b
}

// C07: a request forwarded as hit-for-pass only passes: whatever its own outcome (uncacheable, a
// response with a lifetime, error, panic) and whatever happened on the key while it was at the
// upstream (nothing; or the period lapsed and a probe re-fetched the key, possibly storing a hit),
// its completion leaves the key's entry exactly as it found it at that moment.  Otherwise the
// period would slide with traffic (the key is never probed again) or a straggler would turn a
// freshly stored hit back into hit-for-pass.
func Harness_MW_pass_leaves_entry() {
	cache.ResetDispatchers([]config.CacheConfig{{Name: "c", Size: 16, HitForPass: "5m"}})
	s := NewServer(ServerOption{Addr: ":80", Cache: "c"})
	resp := &cache.HTTPResponse{StatusCode: 200}
	// the fetch that finds the key uncacheable
	l1, _, _, _ := mwRequest(s, "GET", mwUncacheable, 0, resp)
	verifAssume(l1 == cache.StatusFetching)
	st1, _ := mwEntryBytes("GET")
	verifAssert("C07.uncacheable-fetch-leaves-marker", st1 == cache.StatusHitForPass)
	// the passed request P; while it is at the upstream, optionally another request F runs to completion
	outcomeP := verifChoice("outcomeP", 5)
	nested := verifBool("nested")
	var stIn cache.Status
	var bytesIn []byte
	mwInside = func() {
		// (when the marker had already lapsed P itself is the probe: another request would queue
		// behind it, and P is not the subject of this harness)
		if cur, _ := mwEntryBytes("GET"); nested && cur != cache.StatusFetching {
			outcomeF := verifChoice("outcomeF", 2) // cacheable (lifetime 60) or uncacheable
			mwRequest(s, "GET", outcomeF*mwUncacheable, 60, resp)
			verifReach("MW.pass.nested")
		}
		stIn, bytesIn = mwEntryBytes("GET")
	}
	lP, nP, _, _ := mwRequest(s, "GET", outcomeP, 60, resp)
	verifAssume(lP == cache.StatusHitForPass) // (the marker may have lapsed under the free clock: then P is a fetcher, not the subject)
	verifAssert("C07.passed-request-contacts-upstream-exactly-once", nP == 1)
	stOut, bytesOut := mwEntryBytes("GET")
	same := stOut == stIn && len(bytesIn) == len(bytesOut)
	for i := 0; same && i < len(bytesIn); i++ {
		same = bytesIn[i] == bytesOut[i]
	}
	verifAssert("C07.passed-request-leaves-the-entry-untouched", same)
	verifReach("MW.pass.end")
}

// C06 at the middleware: a response stored for one (method, host, URI) is never served to a request
// that differs in any of the three, across the whole path getKey -> dispatcher -> entry, including
// whatever the middleware does with the key bytes afterwards (the dispatcher keeps the key bytes as
// its map key without copying them, so they must never be written again: engine check "frozen").
func Harness_C06_middleware_isolation() {
	cache.ResetDispatchers([]config.CacheConfig{{Name: "c", Size: 16}})
	s := NewServer(ServerOption{Addr: ":80", Cache: "c"})
	respA := &cache.HTTPResponse{StatusCode: 200}
	respB := &cache.HTTPResponse{StatusCode: 201}
	l1, _, _, _ := mwRequestTo(s, "GET", "h", "/a1", mwCacheable, 60, respA)
	verifAssume(l1 == cache.StatusFetching)
	// a second request: the same one, or one differing in exactly one component (same lengths)
	methods := []string{"GET", "GET", "GET", "HEAD"}
	hosts := []string{"h", "h", "g", "h"}
	uris := []string{"/a1", "/a2", "/a1", "/a1"}
	k := verifChoice("second", 4)
	l2, n2, _, _ := mwRequestTo(s, methods[k], hosts[k], uris[k], mwCacheable, 60, respB)
	verifAssert("C06.mw.key-bytes-are-not-written-after-lookup", !verifFrozenWrite())
	if k != 0 {
		verifAssert("C06.mw.different-request-is-not-served-from-the-entry", l2 == cache.StatusFetching && n2 == 1 && mwLastResp == respB)
		verifReach("C06.mw.different")
	}
	// the first request again: if it is still a hit, it is the response stored for it
	l3, _, _, _ := mwRequestTo(s, "GET", "h", "/a1", mwUncacheable, 0, respB)
	if l3 == cache.StatusHit {
		verifAssert("C06.mw.hit-returns-own-response", verifOr(mwLastResp == respA, k == 0))
		verifReach("C06.mw.hit-again")
	}
	verifAssert("C06.mw.key-bytes-are-not-written-after-lookup", !verifFrozenWrite())
	verifReach("C06.mw.end")
}
