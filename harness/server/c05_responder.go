//go:build verif_harness

package server

import (
	"net/http"

	"github.com/vicanso/elton"
	"github.com/vicanso/pike/cache"
)

// C05 / C03 / C04 at the last hop — the responder middleware and (*HTTPResponse).Fill on the real
// elton context: what the client-facing response is made of.  Status code and every end-to-end
// header of the stored/fetched response arrive unchanged, including fields that occur several
// times (Set-Cookie, Vary, Link: all values, in order); identity body when the client sent no
// Accept-Encoding; X-Status carries the truthful label; Age is emitted iff the cache middleware
// reported a positive age; a failing downstream or a missing response object is an error.

var c05Ages = []int{-1, 0, 1, 59}

func Harness_C05_responder() {
	st := cache.Status(1 + verifChoice("status", 4)) // fetching, hitForPass, hit, passed
	age := c05Ages[verifChoice("age", len(c05Ages))]
	outcome := verifChoice("outcome", 3) // 0: response set, 1: no response object, 2: downstream error
	body := verifBytes("body", 3)
	code := 200 + verifChoice("code", 3)
	resp := &cache.HTTPResponse{
		StatusCode: code,
		RawBody:    body,
		Header: http.Header{
			"Content-Type": {"image/png"},
			"Set-Cookie":   {"a=1", "b=2"},
			"Vary":         {"X-Device", "Accept-Language"},
			"X-Single":     {"s"},
		},
	}
	req := &http.Request{Method: "GET", Host: "h", RequestURI: "/a", Header: http.Header{}}
	c := elton.NewContext(&c15Writer{h: http.Header{}}, req)
	c.Next = func() error {
		if outcome == 2 {
			return errMW
		}
		setCacheStatus(c, st)
		if outcome == 0 {
			setHTTPResp(c, resp)
		}
		setHTTPRespAge(c, age)
		return nil
	}
	err := NewResponder()(c)
	switch outcome {
	case 2:
		verifAssert("C05.responder.downstream-error-propagates", err == errMW)
	case 1:
		verifAssert("C05.responder.missing-response-is-an-error", err == ErrInvalidResponse)
	default:
		verifAssert("C05.responder.ok", err == nil)
		verifAssert("C05.responder.status-code-preserved", c.StatusCode == code)
		h := c.Header()
		multi := len(h["Set-Cookie"]) == 2 && h["Set-Cookie"][0] == "a=1" && h["Set-Cookie"][1] == "b=2" &&
			len(h["Vary"]) == 2 && h["Vary"][0] == "X-Device" && h["Vary"][1] == "Accept-Language"
		verifAssert("C05.responder.repeated-header-fields-all-arrive-in-order", multi)
		verifAssert("C05.responder.single-headers-preserved", h.Get("X-Single") == "s" && h.Get("Content-Type") == "image/png")
		verifAssert("C05.responder.identity-when-no-accept-encoding", h.Get("Content-Encoding") == "")
		out := c.BodyBuffer.Bytes()
		same := len(out) == len(body)
		for i := 0; same && i < len(body); i++ {
			same = out[i] == body[i]
		}
		verifAssert("C05.responder.body-identical", same)
		verifAssert("C03.responder.label-is-the-middleware-status", h.Get("X-Status") == st.String())
		wantAge := ""
		if age == 1 {
			wantAge = "1"
		} else if age == 59 {
			wantAge = "59"
		}
		verifAssert("C04.responder.age-header-iff-positive-age", h.Get("Age") == wantAge)
		// serving does not alter the stored response
		verifAssert("C05.responder.stored-headers-untouched", len(resp.Header) == 4 && len(resp.Header["Set-Cookie"]) == 2 && len(resp.Header["Vary"]) == 2)
		verifReach("C05.responder.served")
	}
	verifReach("C05.responder.end")
}
