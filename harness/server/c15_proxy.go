//go:build verif_harness

package server

import (
	"bytes"
	"context"
	"net/http"
	"net/url"

	"github.com/vicanso/elton"
	"github.com/vicanso/hes"
	"github.com/vicanso/pike/cache"
	"github.com/vicanso/pike/config"
	"github.com/vicanso/pike/location"
	"github.com/vicanso/pike/upstream"
)

// C15 — the proxy middleware: what the upstream receives, what is restored afterwards, what the
// client-facing response object contains, and which requests may produce a storable entry.
// The reverse proxy itself is a stub that snapshots the request it is handed and writes an
// arbitrary response subject to the RFC 7232/7233 contract: 304 only if a validator was forwarded,
// 206 only if Range was forwarded.


type c15Snapshot struct {
	called                                         int
	method, path, query                            string
	ifNoneMatch, ifModifiedSince, rng, ifRange, ae string
	other, added                                   string
	addedAll                                       []string
}

const (
	c15OK = iota
	c15Err
	c15Timeout
)

func c15Has(vs []string, v string) bool {
	for _, x := range vs {
		if x == v {
			return true
		}
	}
	return false
}

func Harness_C15_proxy() {
	// ---- configuration ----
	upstreamAE := ""
	if verifBool("upstreamSetsAcceptEncoding") {
		upstreamAE = "gzip"
	}
	upstream.Reset([]config.UpstreamConfig{{Name: "u", AcceptEncoding: upstreamAE, Servers: []config.UpstreamServerConfig{{Addr: "http://a:1"}}}})
	location.Reset([]config.LocationConfig{{Name: "l", Upstream: "u", ReqHeaders: []string{"X-Req:1"}, RespHeaders: []string{"X-Resp:2"}}})
	s := NewServer(ServerOption{Addr: ":80", Locations: []string{"l"}, Cache: "c", Compress: "p", CompressMinLength: 77})
	rewritten := verifBool("hasRewriter")
	if rewritten {
		location.Get("h", "/p", "l").URLRewriter = func(req *http.Request) { req.URL.Path = "/rewritten" }
	}

	// ---- the client's request ----
	hdr := http.Header{"X-Other": {"o"}}
	cINM, cIMS, cRange, cIfRange, cAE := "", "", "", "", ""
	if verifBool("hasIfNoneMatch") {
		cINM = `"v1"`
		hdr["If-None-Match"] = []string{cINM}
	}
	if verifBool("hasIfModifiedSince") {
		cIMS = "Thu, 01 Dec 1994 16:00:00 GMT"
		hdr["If-Modified-Since"] = []string{cIMS}
	}
	if verifBool("hasRange") {
		cRange = "bytes=0-9"
		hdr["Range"] = []string{cRange}
		if verifBool("hasIfRange") {
			cIfRange = `"v1"`
			hdr["If-Range"] = []string{cIfRange}
		}
	}
	// a client header / an upstream response header with the same name as a configured one: the
	// configured header is ADDED, the original value still crosses the proxy
	clientSendsConfigured := verifBool("clientSendsConfiguredHeader")
	if clientSendsConfigured {
		hdr["X-Req"] = []string{"c"}
	}
	upstreamSendsConfigured := verifBool("upstreamSendsConfiguredHeader")
	if verifBool("hasAcceptEncoding") {
		cAE = "br"
		hdr["Accept-Encoding"] = []string{cAE}
	}
	req := &http.Request{Method: "GET", Host: "h", RequestURI: "/p?a=1", Header: hdr, URL: &url.URL{Path: "/p", RawQuery: "a=1"}}
	w := &c15Writer{h: http.Header{"X-Pre": {"pre"}}}
	c := elton.NewContext(w, req)
	status := []cache.Status{cache.StatusFetching, cache.StatusHitForPass, cache.StatusPassed}[verifChoice("cacheStatus", 3)]
	setCacheStatus(c, status)
	nextCalled := 0
	c.Next = func() error { nextCalled++; return nil }

	// ---- the upstream stub ----
	snap := &c15Snapshot{}
	outcome := verifChoice("outcome", 3)
	code := 200
	body := []byte("body")
	upstream.Get("u").Proxy = func(c *elton.Context) error {
		r := c.Request
		snap.called++
		snap.method, snap.path, snap.query = r.Method, r.URL.Path, r.URL.RawQuery
		snap.ifNoneMatch, snap.ifModifiedSince = r.Header.Get("If-None-Match"), r.Header.Get("If-Modified-Since")
		snap.rng, snap.ifRange, snap.ae = r.Header.Get("Range"), r.Header.Get("If-Range"), r.Header.Get("Accept-Encoding")
		snap.other, snap.added = r.Header.Get("X-Other"), r.Header.Get("X-Req")
		snap.addedAll = append([]string{}, r.Header["X-Req"]...)
		switch outcome {
		case c15Err:
			return hes.New("upstream down")
		case c15Timeout:
			return &hes.Error{Err: context.DeadlineExceeded, Message: "timeout"}
		}
		// RFC 7232 / 7233: 304 needs a validator in the request, 206 needs Range
		switch verifChoice("upstreamStatus", 3) {
		case 1:
			verifAssume(snap.ifNoneMatch != "" || snap.ifModifiedSince != "")
			code = 304
			body = nil
		case 2:
			verifAssume(snap.rng != "")
			code = 206
			body = []byte("bo")
		}
		c.StatusCode = code
		c.SetHeader("Cache-Control", "max-age=10")
		c.SetHeader("Etag", `"v1"`)
		c.SetHeader("Content-Length", "4")
		c.SetHeader("X-Up", "up")
		if upstreamSendsConfigured {
			c.SetHeader("X-Resp", "u")
		}
		if body != nil {
			c.BodyBuffer = bytes.NewBuffer(body)
		}
		return nil
	}

	err := NewProxy(s)(c)

	// ---- what the upstream received ----
	verifAssert("C15.upstream-contacted-once", snap.called == 1)
	verifAssert("C15.method-query-unchanged", snap.method == "GET" && snap.query == "a=1")
	if rewritten {
		verifAssert("C15.path-rewritten", snap.path == "/rewritten")
	} else {
		verifAssert("C15.path-unchanged", snap.path == "/p")
	}
	if clientSendsConfigured {
		verifAssert("C15.other-headers-forwarded-and-configured-added", snap.other == "o" && len(snap.addedAll) == 2 && c15Has(snap.addedAll, "c") && c15Has(snap.addedAll, "1"))
	} else {
		verifAssert("C15.other-headers-forwarded-and-configured-added", snap.other == "o" && snap.added == "1" && len(snap.addedAll) == 1)
	}
	if status == cache.StatusFetching {
		verifAssert("C15.fetching-withholds-validators", snap.ifNoneMatch == "" && snap.ifModifiedSince == "")
		verifAssert("C15.fetching-withholds-range", snap.rng == "" && snap.ifRange == "")
	} else {
		verifAssert("C15.non-fetching-forwards-conditionals", snap.ifNoneMatch == cINM && snap.ifModifiedSince == cIMS && snap.rng == cRange && snap.ifRange == cIfRange)
	}
	if upstreamAE != "" {
		verifAssert("C15.accept-encoding-replaced-when-configured", snap.ae == upstreamAE)
	} else {
		verifAssert("C15.accept-encoding-forwarded", snap.ae == cAE)
	}

	// ---- restored on every path (so that the client's own validators still work) ----
	verifAssert("C15.request-headers-restored", req.Header.Get("If-None-Match") == cINM && req.Header.Get("If-Modified-Since") == cIMS &&
		req.Header.Get("Range") == cRange && req.Header.Get("If-Range") == cIfRange && req.Header.Get("Accept-Encoding") == cAE)
	verifAssert("C15.path-and-query-restored", req.URL.Path == "/p" && req.URL.RawQuery == "a=1")

	if outcome != c15OK {
		verifReach("C15.upstream-error")
		verifAssert("C15.error-returned", err != nil && nextCalled == 0)
		if outcome == c15Timeout {
			he, ok := err.(*hes.Error)
			verifAssert("C15.timeout-becomes-504", ok && he.StatusCode == 504)
		}
		return
	}
	verifReach("C15.upstream-ok")
	verifAssert("C15.ok-continues-once", err == nil && nextCalled == 1)
	resp := getHTTPResp(c)
	verifAssert("C15.response-object", resp != nil && resp.StatusCode == code)
	if upstreamSendsConfigured {
		verifAssert("C15.response-headers", resp.Header.Get("X-Up") == "up" && resp.Header.Get("Etag") == `"v1"` && len(resp.Header["X-Resp"]) == 2 && c15Has(resp.Header["X-Resp"], "u") && c15Has(resp.Header["X-Resp"], "2") && resp.Header.Get("Content-Length") == "")
	} else {
		verifAssert("C15.response-headers", resp.Header.Get("X-Up") == "up" && resp.Header.Get("Etag") == `"v1"` && resp.Header.Get("X-Resp") == "2" && len(resp.Header["X-Resp"]) == 1 && resp.Header.Get("Content-Length") == "")
	}
	verifAssert("C15.response-body", string(resp.RawBody) == string(body))
	name, minLength, _ := s.GetCompress()
	verifAssert("C15.server-compress-settings-attached", resp.CompressSrv == name && resp.CompressMinLength == minLength)
	verifAssert("C15.context-reset", c.StatusCode == 0 && c.BodyBuffer == nil && len(w.h) == 1 && w.h.Get("X-Pre") == "pre")
	// a 304 / 206 provoked by one client's headers must never become the stored resource
	if status == cache.StatusFetching {
		verifAssert("C15.fetching-never-yields-304-or-206", code == 200)
		verifAssert("C15.lifetime-recorded-for-fetching", getHTTPCacheMaxAge(c) == 10)
	} else {
		verifAssert("C15.no-lifetime-unless-fetching", getHTTPCacheMaxAge(c) == 0)
	}
}

// no matching location / no such upstream: 5xx and nothing is contacted
func Harness_C15_not_found() {
	upstream.Reset([]config.UpstreamConfig{{Name: "u", Servers: []config.UpstreamServerConfig{{Addr: "http://a:1"}}}})
	called := 0
	upstream.Get("u").Proxy = func(c *elton.Context) error { called++; return nil }
	upName := "u"
	if verifBool("danglingUpstream") {
		upName = "nope"
	}
	location.Reset([]config.LocationConfig{{Name: "l", Upstream: upName, Hosts: []string{"h"}}})
	host := "h"
	if verifBool("otherHost") {
		host = "x"
	}
	s := NewServer(ServerOption{Addr: ":80", Locations: []string{"l"}})
	req := &http.Request{Method: "GET", Host: host, RequestURI: "/p", Header: http.Header{}, URL: &url.URL{Path: "/p"}}
	c := elton.NewContext(&c15Writer{h: http.Header{}}, req)
	c.Next = func() error { return nil }
	err := NewProxy(s)(c)
	if host != "h" {
		he, ok := err.(*hes.Error)
		verifAssert("C14.no-location-is-503", err == ErrLocationNotFound && ok && he.StatusCode == 503 && called == 0)
		verifReach("C15.no-location")
	} else if upName != "u" {
		he, ok := err.(*hes.Error)
		verifAssert("C15.no-upstream-is-502", err == ErrUpstreamNotFound && ok && he.StatusCode == 502 && called == 0)
		verifReach("C15.no-upstream")
	} else {
		verifAssert("C15.found-contacts-once", err == nil && called == 1)
		verifReach("C15.found")
	}
}
