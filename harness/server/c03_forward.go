//go:build verif_harness

package server

import (
	"bytes"
	"net/http"
	"net/url"

	"github.com/vicanso/elton"
	"github.com/vicanso/hes"
	"github.com/vicanso/pike/cache"
	"github.com/vicanso/pike/config"
	"github.com/vicanso/pike/location"
	"github.com/vicanso/pike/upstream"
)

// C03 — "non-GET/HEAD requests are always forwarded, each exactly once … every successful response
// not labelled a hit involved exactly one [upstream contact]": whatever the method, the cache
// status and the upstream's answer (a response, or an error before any response byte), the proxy
// middleware hands the request to the upstream exactly once — it does not retry on its own.
func Harness_C03_forward_once() {
	upstream.Reset([]config.UpstreamConfig{{Name: "u", Servers: []config.UpstreamServerConfig{{Addr: "http://a:1"}}}})
	location.Reset([]config.LocationConfig{{Name: "l", Upstream: "u"}})
	s := NewServer(ServerOption{Addr: ":80", Locations: []string{"l"}, Cache: "c"})
	methods := []string{"GET", "HEAD", "POST", "DELETE"}
	method := methods[verifChoice("method", len(methods))]
	req := &http.Request{Method: method, Host: "h", RequestURI: "/p", Header: http.Header{}, URL: &url.URL{Path: "/p"}}
	c := elton.NewContext(&c15Writer{h: http.Header{}}, req)
	status := []cache.Status{cache.StatusFetching, cache.StatusHitForPass, cache.StatusPassed}[verifChoice("cacheStatus", 3)]
	setCacheStatus(c, status)
	c.Next = func() error { return nil }
	called := 0
	fails := verifBool("upstreamFails")
	upstream.Get("u").Proxy = func(c *elton.Context) error {
		called++
		if fails {
			return hes.New("connection reset")
		}
		c.StatusCode = 200
		c.BodyBuffer = bytes.NewBuffer([]byte("b"))
		return nil
	}
	err := NewProxy(s)(c)
	verifAssert("C03.proxy-forwards-each-request-exactly-once", called == 1)
	verifAssert("C03.proxy-error-iff-upstream-error", (err != nil) == fails)
	verifReach("C03.forward.end")
}
