//go:build verif_harness

package server

import "regexp"

// C16 (servers) — a server updated in place equals a server freshly created from the same option,
// for everything the request path reads through the getters; removed servers are closed.

var ghostClosed int
var ghostClosedAddrs []string

//verif:hook (*github.com/vicanso/pike/server.server).Close
func verifHook_serverClose(s *server) error {
	ghostClosed++
	ghostClosedAddrs = append(ghostClosedAddrs, s.addr)
	return nil
}

func c16Closed(addr string) bool {
	for _, a := range ghostClosedAddrs {
		if a == addr {
			return true
		}
	}
	return false
}

var c16Filter = regexp.MustCompile(`text`)

// a one-byte name with a symbolic letter (comparisons stay symbolic, no case split)
func c16Name(n string) string {
	return string([]byte{verifByte(n)})
}

func c16Option(tag, addr string) ServerOption {
	o := ServerOption{Addr: addr, Cache: c16Name(tag + ".cache"), Compress: c16Name(tag + ".compress"), CompressMinLength: verifInt(tag + ".minLength")}
	n := verifChoice(tag+".nLocations", 3)
	for i := 0; i < n; i++ {
		o.Locations = append(o.Locations, c16Name(tag+".location"))
	}
	if verifBool(tag + ".hasFilter") {
		o.CompressContentTypeFilter = c16Filter
	}
	return o
}

func c16SameServer(a, b *server) bool {
	if a == nil || b == nil {
		return a == b
	}
	la, lb := a.GetLocations(), b.GetLocations()
	if len(la) != len(lb) {
		return false
	}
	eq := a.GetCache() == b.GetCache()
	for i := range la {
		eq = verifAnd(eq, la[i] == lb[i])
	}
	an, am, af := a.GetCompress()
	bn, bm, bf := b.GetCompress()
	return verifAnd(eq, verifAnd(an == bn, verifAnd(am == bm, af == bf)))
}

func Harness_C16_server_update() {
	o1 := c16Option("o1", ":80")
	o2 := c16Option("o2", ":80")
	live := NewServer(o1)
	live.Update(o2)
	fresh := NewServer(o2)
	verifAssert("C16.server.updated-equals-fresh", c16SameServer(live, fresh))
	verifReach("C16.server.end")
}

func Harness_C16_servers_reset() {
	addrs := []string{":80", ":81"}
	var cfg1, cfg2 []ServerOption
	for _, a := range addrs {
		if verifBool("cfg1.has" + a) {
			cfg1 = append(cfg1, ServerOption{Addr: a, Cache: "c1", Locations: []string{"l1"}, CompressMinLength: verifInt("cfg1.min" + a)})
		}
		if verifBool("cfg2.has" + a) {
			cfg2 = append(cfg2, ServerOption{Addr: a, Cache: "c2", Locations: []string{"l2"}, CompressMinLength: verifInt("cfg2.min" + a)})
		}
	}
	live := NewServers(cfg1)
	ghostClosed = 0
	ghostClosedAddrs = nil
	// a server that stays configured stays registered (the same object: its listener keeps serving)
	// at every moment of the update, observed after every change of the registry's sync.Map
	beforeSrv := map[string]*server{}
	for _, a := range addrs {
		beforeSrv[a] = live.Get(a)
	}
	lost := 0
	verifOnSyncMapWrite(func() {
		for _, a := range addrs {
			stays := false
			for _, o := range cfg2 {
				if o.Addr == a {
					stays = true
				}
			}
			if beforeSrv[a] != nil && stays && live.Get(a) != beforeSrv[a] {
				lost++
			}
		}
	})
	live.Reset(cfg2)
	verifOnSyncMapWrite(nil)
	verifAssert("C16.servers.survivor-registered-throughout-reset", lost == 0)
	verifRunSpawned()
	fresh := NewServers(cfg2)
	removed := 0
	for _, a := range addrs {
		in1, in2 := false, false
		for _, o := range cfg1 {
			if o.Addr == a {
				in1 = true
			}
		}
		for _, o := range cfg2 {
			if o.Addr == a {
				in2 = true
			}
		}
		if in1 && !in2 {
			removed++
		}
		// every removed server stops listening (each one, not just as many closes as removals);
		// a server that stays configured is not closed
		verifAssert("C16.servers.each-removed-server-is-closed", c16Closed(a) == (in1 && !in2))
		verifAssert("C16.servers.registry-equals-fresh", c16SameServer(live.Get(a), fresh.Get(a)))
	}
	verifAssert("C16.servers.removed-are-closed", ghostClosed == removed)
	verifReach("C16.servers.end")
}
