//go:build verif_harness

package server

import "net/http"

// C03 — structured Cache-Control values: up to three directives (two on the first header
// line, one on an optional second line), each drawn from the directive names the
// property talks about with symbolic letter case and symbolic (arbitrary ASCII) values,
// or an arbitrary 3-byte token.  This reaches multi-directive interplay (preference,
// s-maxage=0 with max-age, prohibited + lifetime) that is longer than the byte-string
// bound of the unstructured harness.

func c03Cased(name string, word string) []byte {
	b := make([]byte, len(word))
	for i := 0; i < len(word); i++ {
		c := word[i]
		if c >= 'a' && c <= 'z' {
			b[i] = verifIteByte(verifBool(name+".upper"), c-32, c)
		} else {
			b[i] = c
		}
	}
	return b
}

func c03Gen(name string, maxVal int) string {
	switch verifChoice(name+".kind", 7) {
	case 1:
		v := verifString(name+".val", maxVal)
		c03ASCII(v)
		return string(c03Cased(name, "s-maxage=")) + v
	case 2:
		v := verifString(name+".val", maxVal)
		c03ASCII(v)
		return string(c03Cased(name, "max-age=")) + v
	case 3:
		return string(c03Cased(name, "private"))
	case 4:
		return string(c03Cased(name, "no-cache"))
	case 5:
		return string(c03Cased(name, "no-store"))
	case 6:
		v := verifString(name+".tok", 3)
		c03ASCII(v)
		return v
	}
	return ""
}

func Harness_C03_structured() {
	c03Structured(1, false)
}

func Harness_C03_structured_thorough() {
	c03Structured(2, true)
}

func c03Structured(maxVal int, three bool) {
	d1 := c03Gen("d1", maxVal)
	d2 := c03Gen("d2", maxVal)
	sep := ","
	if verifBool("spaceSep") {
		sep = ", "
	}
	line1 := d1
	d3 := ""
	if verifBool("secondLine") {
		// the second directive travels on its own header line
		d3 = d2
	} else if len(d2) > 0 {
		line1 = d1 + sep + d2
	}
	if three {
		d4 := c03Gen("d4", 1)
		if len(d4) > 0 {
			line1 = line1 + sep + d4
		}
	}
	age := verifString("age", 1)
	c03ASCII(age)

	h := http.Header{}
	joined := line1
	if len(d3) > 0 {
		h["Cache-Control"] = []string{line1, d3}
		joined = line1 + "," + d3
	} else if len(line1) > 0 {
		h["Cache-Control"] = []string{line1}
	}
	if len(age) > 0 {
		h["Age"] = []string{age}
	}
	got := getCacheMaxAge(h)

	lc := make([]byte, len(joined))
	for i := 0; i < len(joined); i++ {
		lc[i] = c03Lower(joined[i])
	}
	prohibited := verifOr(c03Contains(lc, "no-cache"), verifOr(c03Contains(lc, "no-store"), c03Contains(lc, "private")))
	sFound, sVal := c03Directive(lc, "s-maxage=")
	mFound, mVal := c03Directive(lc, "max-age=")
	base := verifIteInt(sFound, sVal, verifIteInt(mFound, mVal, 0))
	lifetime := base - c03Age(age)
	shareable := verifAnd(len(joined) > 0, verifNot(prohibited))
	verifAssert("C03.struct.stored-only-if-shareable", verifImplies(got > 0, shareable))
	verifAssert("C03.struct.lifetime", verifImplies(shareable, verifIteBool(lifetime > 0, got == lifetime, got <= 0)))
	verifAssert("C03.struct.not-shareable-is-not-stored", verifImplies(verifNot(shareable), got <= 0))
	verifReach("C03.struct.end")
}
