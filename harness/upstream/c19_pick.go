//go:build verif_harness

package upstream

import (
	"github.com/vicanso/elton"
	us "github.com/vicanso/upstream"
)

// C19 — selection logic: pike's wiring (primary / backup, policy, 503 when nothing is healthy) and
// the dependency's selection code (vicanso/upstream, executed from its real source) with every
// server's health status a solver-chosen value.  The health checker itself (TCP / HTTP probes, the
// 5 s ticker) is replaced by a stub that sets arbitrary statuses: probing is outside the claim.

var ghostAllHealthy bool
var ghostStopped []*us.HTTP
var ghostStarted []*us.HTTP

// ghostDuringHealthCheck, when set, runs inside every (synchronous, possibly slow) health check: what
// a request arriving at that moment observes
var ghostDuringHealthCheck func()

//verif:hook (*github.com/vicanso/upstream.HTTP).DoHealthCheck
func verifHook_doHealthCheck(h *us.HTTP) {
	if f := ghostDuringHealthCheck; f != nil {
		f()
	}
	for _, u := range h.GetUpstreamList() {
		if ghostAllHealthy {
			u.Healthy()
			continue
		}
		switch verifChoice("status", 3) {
		case 0:
			u.Healthy()
		case 1:
			u.Sick()
		default:
			u.Ignored()
		}
	}
}

//verif:hook (*github.com/vicanso/upstream.HTTP).StartHealthCheck
func verifHook_startHealthCheck(h *us.HTTP) { ghostStarted = append(ghostStarted, h) }

//verif:hook (*github.com/vicanso/upstream.HTTP).StopHealthCheck
func verifHook_stopHealthCheck(h *us.HTTP) { ghostStopped = append(ghostStopped, h) }

// the reverse-proxy middleware (elton/middleware + net/http transports) is not encodable
//
//verif:hook github.com/vicanso/pike/upstream.newProxyMid
func verifHook_newProxyMid(opt UpstreamServerOption, uh *us.HTTP) elton.Handler { return nil }

var c19Policies = []string{us.PolicyFirst, us.PolicyRandom, us.PolicyRoundRobin, us.PolicyLeastconn, ""}
var c19HealthChecks = []string{"", "/", "/ping", "/ping/"}
var c19Addrs = []string{"http://a:1", "http://b:1", "http://c:1", "http://d:1"}

func c19Servers(n int) []UpstreamServerConfig {
	var out []UpstreamServerConfig
	for i := 0; i < n; i++ {
		out = append(out, UpstreamServerConfig{Addr: c19Addrs[i], Backup: verifBool("backup")})
	}
	return out
}

func Harness_C19_pick() {
	ghostStarted = nil
	n := 1 + verifChoice("servers", 3)
	opt := UpstreamServerOption{Name: "u", Policy: c19Policies[verifChoice("policy", len(c19Policies))], Servers: c19Servers(n),
		HealthCheck: c19HealthChecks[verifChoice("healthCheck", len(c19HealthChecks))]}
	srv := NewUpstreamServer(opt)
	verifRunSpawned()
	list := srv.HTTPUpstream.GetUpstreamList()
	verifAssert("C19.wiring.all-servers-registered", len(list) == n)
	// the probe the health checker performs is the configured one: an empty path means "TCP port
	// check only" to the library, so "/" must not silently become "" (a listening server that answers
	// 5xx would then count as healthy), and a path is not rewritten
	verifAssert("C19.wiring.health-check-path-is-the-configured-one", srv.HTTPUpstream.Ping == opt.HealthCheck)
	verifAssert("C19.wiring.policy-is-the-configured-one", srv.HTTPUpstream.Policy == opt.Policy)
	// "traffic resumes by itself once a server recovers": the periodic checker runs for every group,
	// also when every server failed the first check
	verifAssert("C19.wiring.periodic-health-check-always-started", len(ghostStarted) == 1 && ghostStarted[0] == srv.HTTPUpstream)
	healthyPrimary, healthyBackup := false, false
	for i, u := range list {
		verifAssert("C19.wiring.backup-flag", u.Backup == opt.Servers[i].Backup)
		if u.Status() == us.UpstreamHealthy {
			if u.Backup {
				healthyBackup = true
			} else {
				healthyPrimary = true
			}
		}
	}
	picker := newTargetPicker(srv.HTTPUpstream)
	target, done, err := picker(nil)
	if err != nil {
		verifReach("C19.none-healthy")
		verifAssert("C19.error-only-when-nothing-healthy", !healthyPrimary && !healthyBackup)
		verifAssert("C19.error-is-503", err == ErrUpstreamNotFound && ErrUpstreamNotFound.StatusCode == 503 && target == nil)
		return
	}
	verifReach("C19.picked")
	var chosen *us.HTTPUpstream
	for _, u := range list {
		if u.URL == target {
			chosen = u
		}
	}
	verifAssert("C19.target-is-a-configured-server", chosen != nil)
	verifAssert("C19.only-healthy-servers", chosen.Status() == us.UpstreamHealthy)
	verifAssert("C19.backup-only-when-no-primary-healthy", !chosen.Backup || !healthyPrimary)
	if done != nil {
		done(nil)
	}
}

// round robin: healthy servers of the preferred class share sequential requests evenly
func Harness_C19_roundrobin() {
	n := 2 + verifChoice("servers", 2)
	opt := UpstreamServerOption{Name: "u", Policy: us.PolicyRoundRobin, Servers: c19Servers(n)}
	srv := NewUpstreamServer(opt)
	list := srv.HTTPUpstream.GetUpstreamList()
	picker := newTargetPicker(srv.HTTPUpstream)
	counts := make([]int, len(list))
	calls := 7
	for k := 0; k < calls; k++ {
		target, _, err := picker(nil)
		if err != nil {
			verifReach("C19.rr.none")
			return
		}
		for i, u := range list {
			if u.URL == target {
				counts[i]++
			}
		}
	}
	healthyPrimary := false
	for _, u := range list {
		if u.Status() == us.UpstreamHealthy && !u.Backup {
			healthyPrimary = true
		}
	}
	min, max, total := calls, 0, 0
	for i, u := range list {
		eligible := u.Status() == us.UpstreamHealthy && (u.Backup != healthyPrimary)
		if eligible {
			if counts[i] < min {
				min = counts[i]
			}
			if counts[i] > max {
				max = counts[i]
			}
		} else {
			verifAssert("C19.rr.ineligible-gets-nothing", counts[i] == 0)
		}
		total += counts[i]
	}
	verifAssert("C19.rr.counts-differ-by-at-most-one", total == calls && max-min <= 1)
	verifReach("C19.rr.end")
}

// reload: the group registered under a name after Reset is the new one (its health checker started,
// not stopped); replaced and removed groups are stopped
func Harness_C19_reset() {
	ghostStarted, ghostStopped = nil, nil
	ghostAllHealthy = true
	reg := NewUpstreamServers([]UpstreamServerOption{{Name: "u", Servers: c19Servers(1)}, {Name: "gone", Servers: c19Servers(1)}})
	verifRunSpawned()
	oldU, oldGone := reg.Get("u"), reg.Get("gone")
	// C16: while the update is applied (each new group runs a synchronous health check before it is
	// usable), an upstream that stays configured is available to requests at every moment
	missing := 0
	ghostDuringHealthCheck = func() {
		if reg.Get("u") == nil {
			missing++
		}
	}
	reg.Reset([]UpstreamServerOption{{Name: "u", Servers: c19Servers(2)}, {Name: "new", Servers: c19Servers(1)}})
	ghostDuringHealthCheck = nil
	verifAssert("C16.upstream-that-stays-configured-is-never-missing-during-reset", missing == 0)
	verifRunSpawned()
	cur := reg.Get("u")
	verifAssert("C19.reset.same-name-is-replaced", cur != nil && cur != oldU && len(cur.HTTPUpstream.GetUpstreamList()) == 2)
	verifAssert("C19.reset.removed-is-gone", reg.Get("gone") == nil && reg.Get("new") != nil)
	stopped := func(h *us.HTTP) bool {
		for _, s := range ghostStopped {
			if s == h {
				return true
			}
		}
		return false
	}
	started := func(h *us.HTTP) bool {
		for _, s := range ghostStarted {
			if s == h {
				return true
			}
		}
		return false
	}
	verifAssert("C19.reset.old-groups-stopped", stopped(oldU.HTTPUpstream) && stopped(oldGone.HTTPUpstream))
	verifAssert("C19.reset.live-groups-keep-checking", started(cur.HTTPUpstream) && !stopped(cur.HTTPUpstream) && started(reg.Get("new").HTTPUpstream) && !stopped(reg.Get("new").HTTPUpstream))
	verifReach("C19.reset.end")
}
