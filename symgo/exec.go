package main

// Symbolic executor over go/ssa: concrete-shape heap, symbolic scalars.
// Paths are explored by re-execution from the harness entry with a decision
// prefix; every fork is first checked for feasibility with the solver.

import (
	"fmt"
	"sync/atomic"
	"time"
	"go/constant"
	"go/token"
	"go/types"
	"sort"
	"path/filepath"
	"strings"

	"golang.org/x/tools/go/ssa"
)

type pathEnd struct{ reason string }
type goPanic struct {
	val  Value
	desc string
	name string // assertion name under which an uncaught instance is reported (default: no-panic)
}

type deferred struct {
	fv   *FuncV
	args []Value
	call *ssa.CallCommon
}

type Frame struct {
	callPos   token.Pos // position of the call instruction in the caller
	fn        *ssa.Function
	env       map[ssa.Value]Value
	defers    []deferred
	panicking *goPanic
	recovered bool
	result    Value
	visits    map[int]int
	caller    *Frame
}

type AssertRec struct {
	Prefix []int
	Name   string
	Status string // proved | violated | unknown | trivially-true
	Model  map[string]uint64
	Detail string
}

type PathResult struct {
	Prefix   []int
	End      string
	Asserts  []AssertRec
	Reached  []string
	NewPref  [][]int
	Panic    string
	Unsup    string
	Steps    int
	Inputs   map[string]uint64
	Notes    []string
	Events   []string
	Funcs    map[string]bool // pike functions entered on this path
	NotComparable string // non-empty: the path cannot be compared with a native run (library stub, verifNative branch, free-outcome stub)
}

type Exec struct {
	ld     *Loaded
	tb     *TB
	solver *Solver

	pc        []*Term
	decisions []int
	decIdx    int
	res       *PathResult

	nextObj   int
	nextMap   int
	nextChan  int
	curThread int
	globals   map[string]*Object
	varCount  map[string]int
	hooks     map[string]*ssa.Function
	inHook    map[string]bool
	loopBound int
	steps     int
	maxSteps  int
	lenient   bool // package initialisers: unknown externals return zero values
	depth     int
	mutexes   map[*Object]map[string]int // lock state per mutex cell
	ghost     map[string]Value
	ghostT    map[string]types.Type
	concLimit int
	emit      func(prefix []int)
	abort     *int32 // set by the driver: stop this path as soon as possible
	opts      *RunOpts
	curFrame  *Frame
	callLog   []string
	feasMemo  map[string]bool
	regexMemo map[string]*rxProg
	curPos    token.Pos
	watchPublish map[string]bool
	watchLock    map[*Object]*lockWatch // lock-discipline watch: object -> its guarding mutex
	tm        *threadMode
	bmcThreads []bmcThread
	sess      *Session
	pendingModel map[string]uint64
	pendingFor   *Term
	pcSet     map[int]bool
	pcDirty   bool
	inOnLock  bool
	inSyncMapHook bool
	pools     map[string][]Value // sync.Pool contents
	lastModel map[string]uint64 // a model of the current path condition, if known
	evalMemo  map[int]uint64
}

type RunOpts struct {
	InitPkgs  []string
	LoopBound int
	MaxSteps  int
	ConcLimit int
	Tier      int
}

func NewExec(ld *Loaded, solver *Solver, hooks map[string]*ssa.Function, opts *RunOpts) *Exec {
	ex := &Exec{ld: ld, tb: NewTB(), solver: solver, hooks: hooks, opts: opts}
	ex.feasMemo = map[string]bool{}
	ex.regexMemo = map[string]*rxProg{}
	ex.sess = solver.NewSession(ex.tb)
	return ex
}

func (ex *Exec) resetPath(prefix []int) {
	ex.pc = nil
	ex.pcSet = map[int]bool{}
	ex.pcDirty = false
	ex.lastModel = map[string]uint64{}
	ex.evalMemo = map[int]uint64{}
	ex.sess.Begin()
	ex.decisions = prefix
	ex.decIdx = 0
	ex.res = &PathResult{Prefix: prefix}
	ex.nextObj = 0
	ex.nextMap = 0
	ex.nextChan = 0
	ex.curThread = -1
	ex.globals = map[string]*Object{}
	ex.varCount = map[string]int{}
	ex.inHook = map[string]bool{}
	ex.loopBound = ex.opts.LoopBound
	if ex.loopBound == 0 {
		ex.loopBound = 5000
	}
	ex.maxSteps = ex.opts.MaxSteps
	if ex.maxSteps == 0 {
		ex.maxSteps = 3000000
	}
	ex.concLimit = ex.opts.ConcLimit
	if ex.concLimit == 0 {
		ex.concLimit = 80
	}
	ex.steps = 0
	ex.mutexes = map[*Object]map[string]int{}
	ex.ghost = map[string]Value{}
	ex.pools = map[string][]Value{}
	ex.ghostT = map[string]types.Type{}
	ex.callLog = nil
	ex.curFrame = nil
	ex.bmcThreads = nil
	ex.watchPublish = map[string]bool{}
	ex.watchLock = map[*Object]*lockWatch{}
}

// RunPath executes the harness function along the given decision prefix.
func (ex *Exec) RunPath(fn *ssa.Function, prefix []int) (res *PathResult) {
	ex.resetPath(prefix)
	res = ex.res
	defer func() {
		if r := recover(); r != nil {
			switch e := r.(type) {
			case pathEnd:
				res.End = e.reason
				if strings.HasPrefix(e.reason, "blocked") {
					// a sequential harness that blocks can never continue: report it with a witness
					rec := AssertRec{Name: "no-deadlock", Status: "violated", Detail: e.reason, Prefix: append([]int{}, ex.decisions[:ex.decIdx]...)}
					if cr := ex.sess.Check(nil, true); cr.Res == "sat" {
						rec.Model = cr.Model
						res.Asserts = append(res.Asserts, rec)
					} else if cr.Res != "unsat" {
						rec.Status = "unknown"
						res.Asserts = append(res.Asserts, rec)
					}
				}
			case *goPanic:
				res.End = "panic"
				res.Panic = e.desc
				ex.recordPanic(e)
			case unsupportedErr:
				res.End = "unsupported"
				res.Unsup = e.msg + ex.where()
			default:
				panic(r)
			}
		}
		res.Steps = ex.steps
	}()
	// package initialisers
	ex.lenient = true
	for _, p := range ex.opts.InitPkgs {
		sp := ex.ld.Src[pikeMod+"/"+p]
		if sp == nil {
			panic(unsupported("init: package not loaded: " + p))
		}
		if initFn := sp.Func("init"); initFn != nil {
			ex.callFunction(initFn, nil, nil)
		}
	}
	ex.lenient = false
	ex.callFunction(fn, nil, nil)
	res.End = "return"
	// a concrete input vector that follows this path (evidence sample)
	if ex.lastModel != nil {
		res.Inputs = ex.lastModel
	} else if cr := ex.sess.Check(nil, true); cr.Res == "sat" {
		res.Inputs = cr.Model
	}
	return res
}

func (ex *Exec) where() string {
	fr := ex.curFrame
	var parts []string
	for i := 0; fr != nil && i < 6; i++ {
		parts = append(parts, fr.fn.String())
		fr = fr.caller
	}
	return " [in " + strings.Join(parts, " <- ") + "]"
}

// recordPanic: an uncaught Go panic on a feasible path is an implicit assertion failure.
func (ex *Exec) recordPanic(p *goPanic) {
	rec := AssertRec{Name: "no-panic", Status: "violated", Detail: p.desc + ex.where()}
	if p.name != "" {
		rec.Name = p.name
	}
	rec.Prefix = append([]int{}, ex.decisions[:ex.decIdx]...)
	cr := ex.sess.Check(nil, true)
	if cr.Res == "sat" {
		rec.Model = cr.Model
	} else if cr.Res == "unsat" {
		return
	} else {
		rec.Status = "unknown"
	}
	ex.res.Asserts = append(ex.res.Asserts, rec)
}

// ---------- forking ----------

func pcKey(pc []*Term, extra *Term) string {
	ids := make([]int, 0, len(pc)+1)
	for _, t := range pc {
		ids = append(ids, t.ID)
	}
	if extra != nil {
		ids = append(ids, extra.ID)
	}
	sort.Ints(ids)
	var sb strings.Builder
	for _, i := range ids {
		fmt.Fprintf(&sb, "%d,", i)
	}
	return sb.String()
}

func (ex *Exec) feasible(extra *Term) bool {
	if extra.IsFalse() {
		return false
	}
	if ex.abort != nil && atomic.LoadInt32(ex.abort) != 0 {
		panic(pathEnd{"aborted"})
	}
	if ex.pcSet[extra.ID] && !ex.pcDirty {
		return true
	}
	if ex.lastModel != nil && ex.modelSat(extra) {
		return true
	}
	k := pcKey(ex.pc, extra)
	if v, ok := ex.feasMemo[k]; ok {
		return v
	}
	cr := ex.sess.Check([]*Term{extra}, true)
	if cr.Res == "sat" && cr.Model != nil && !hasApps(extra) {
		ex.pendingModel = cr.Model
		ex.pendingFor = extra
	}
	r := cr.Res != "unsat" // unknown = keep
	if cr.Res == "error" {
		panic(unsupported("solver error: " + cr.Raw))
	}
	ex.feasMemo[k] = r
	return r
}

func (ex *Exec) addPC(c *Term) {
	if c.IsTrue() || ex.pcSet[c.ID] {
		return
	}
	ex.pc = append(ex.pc, c)
	ex.pcSet[c.ID] = true
	if ex.lastModel != nil && !ex.modelSat(c) {
		ex.lastModel = nil
	}
	if ex.lastModel == nil && ex.pendingFor == c && ex.pendingModel != nil {
		ex.lastModel = ex.pendingModel
		ex.evalMemo = map[int]uint64{}
	}
	ex.pendingFor, ex.pendingModel = nil, nil
	if c.Op == OpAnd {
		for _, a := range c.Args {
			ex.pcSet[a.ID] = true
		}
	}
	ex.sess.Assert(c)
}

// modelSat: does the cached model satisfy c?  Terms with uninterpreted applications are not evaluated.
func (ex *Exec) modelSat(c *Term) bool {
	if hasApps(c) {
		return false
	}
	return ex.tb.Eval(c, ex.lastModel, ex.evalMemo) == 1
}

var appMemo = map[*Term]bool{}

func hasApps(t *Term) bool {
	seen := map[int]bool{}
	var walk func(t *Term) bool
	walk = func(t *Term) bool {
		if seen[t.ID] {
			return false
		}
		seen[t.ID] = true
		if t.Op == OpApp {
			return true
		}
		for _, a := range t.Args {
			if walk(a) {
				return true
			}
		}
		return false
	}
	return walk(t)
}

// settle makes sure the path condition is still satisfiable after lazily added assumptions.
func (ex *Exec) settle() {
	if ex.pcDirty {
		ex.pcDirty = false
		if !ex.feasible(ex.tb.True) {
			panic(pathEnd{"assume-infeasible"})
		}
	}
}

// choose picks one of the alternatives (mutually exclusive conditions).
func (ex *Exec) choose(conds []*Term) int {
	if ex.decIdx < len(ex.decisions) {
		d := ex.decisions[ex.decIdx]
		ex.decIdx++
		ex.addPC(conds[d])
		ex.tmDecision(conds[d], d)
		return d
	}
	first := -1
	ex.pcDirtyFlush()
	for i, c := range conds {
		if i == len(conds)-1 && first < 0 && len(conds) == 2 {
			// the path condition is satisfiable and conds are exhaustive: the last one must be feasible
			first = i
			continue
		}
		if !ex.feasible(c) {
			continue
		}
		if first < 0 {
			first = i
			continue
		}
		np := append(append([]int{}, ex.decisions[:ex.decIdx]...), i)
		ex.publish(np)
	}
	if first < 0 {
		panic(pathEnd{"infeasible"})
	}
	ex.decisions = append(append([]int{}, ex.decisions[:ex.decIdx]...), first)
	ex.decIdx++
	ex.addPC(conds[first])
	ex.tmDecision(conds[first], first)
	return first
}

func (ex *Exec) branch(c *Term) bool {
	if c.IsTrue() {
		return true
	}
	if c.IsFalse() {
		return false
	}
	if ex.pcSet[c.ID] {
		return true
	}
	if ex.pcSet[ex.tb.Not(c).ID] {
		return false
	}
	return ex.choose([]*Term{c, ex.tb.Not(c)}) == 0
}

// publish hands a new decision prefix to the driver at once, so that other workers can take
// it while this path is still running.
func (ex *Exec) publish(np []int) {
	if ex.emit != nil {
		ex.emit(np)
		return
	}
	ex.res.NewPref = append(ex.res.NewPref, np)
}

func (ex *Exec) pcDirtyFlush() { ex.settle() }

// concInt forks over the feasible values of t (at most concLimit).
func (ex *Exec) concInt(t *Term, what string) int {
	if t.IsConst() {
		return int(t.SInt())
	}
	if ex.decIdx < len(ex.decisions) {
		v := ex.decisions[ex.decIdx]
		ex.decIdx++
		c := ex.tb.Eq(t, ex.tb.BV(t.W, uint64(int64(v))))
		ex.addPC(c)
		ex.tmDecision(c, v)
		return v
	}
	var vals []int
	var block []*Term
	t0 := time.Now()
	for {
		if time.Since(t0) > 90*time.Second {
			panic(unsupported(fmt.Sprintf("concretise %s: enumeration of feasible values exceeded 90 s (%d found)", what, len(vals))))
		}
		cr := ex.sess.Check(append([]*Term{ex.tb.Mention(t)}, block...), true)
		if cr.Res == "unsat" {
			break
		}
		if cr.Res != "sat" {
			panic(unsupported("concretise " + what + ": solver " + cr.Res))
		}
		v := ex.tb.Eval(t, cr.Model, map[int]uint64{})
		vals = append(vals, int(sext64(v, t.W)))
		block = append(block, ex.tb.Ne(t, ex.tb.BV(t.W, v)))
		if len(vals) > ex.concLimit {
			panic(unsupported(fmt.Sprintf("concretise %s: more than %d feasible values", what, ex.concLimit)))
		}
	}
	if len(vals) == 0 {
		panic(pathEnd{"infeasible"})
	}
	sort.Ints(vals)
	for _, v := range vals[1:] {
		np := append(append([]int{}, ex.decisions[:ex.decIdx]...), v)
		ex.publish(np)
	}
	ex.decisions = append(append([]int{}, ex.decisions[:ex.decIdx]...), vals[0])
	ex.decIdx++
	c0 := ex.tb.Eq(t, ex.tb.BV(t.W, uint64(int64(vals[0]))))
	ex.addPC(c0)
	ex.tmDecision(c0, vals[0])
	return vals[0]
}

func (ex *Exec) freshVar(name string, w int) *Term {
	if ex.inThread() {
		// per thread and program position (see tmVar)
		key := ex.tmPosKey() + "/" + name
		n := ex.tm.posCount[key]
		ex.tm.posCount[key] = n + 1
		v := ex.tb.Var(fmt.Sprintf("%s.%s#%d", ex.tm.name, key, n), w)
		ex.tmEvent(&Event{Kind: "nondet", Name: name, Var: v})
		return v
	}
	n := ex.varCount[name]
	ex.varCount[name] = n + 1
	if n > 0 {
		name = fmt.Sprintf("%s#%d", name, n)
	}
	return ex.tb.Var(name, w)
}

func (ex *Exec) goPanicf(format string, args ...interface{}) {
	msg := fmt.Sprintf(format, args...)
	panic(&goPanic{val: &IfaceV{Typ: types.Typ[types.String], Val: ex.constStr(msg)}, desc: msg})
}

// check: implicit runtime check; forks into ok / panic.
func (ex *Exec) check(ok *Term, format string, args ...interface{}) {
	if ok.IsTrue() {
		return
	}
	if !ex.branch(ok) {
		ex.goPanicf(format, args...)
	}
}

// ---------- function calls ----------

func (ex *Exec) callFunction(fn *ssa.Function, args []Value, bind []Value) (ret Value) {
	if fn.Blocks == nil {
		panic(unsupported("no body for " + fn.String()))
	}
	ex.depth++
	if ex.depth > 200 {
		panic(unsupported("call depth > 200 (recursion?) at " + fn.String()))
	}
	if ex.inThread() {
		// thread mode: every read of a shared cell is a fresh variable, so a recursive re-entry
		// (e.g. a woken waiter calling Get again) is feasible at any depth in the per-thread tree.
		// The tree is cut at bmcMaxRecursion active frames of one function; the cut is an
		// unwinding obligation (shown unreachable in the composed system, or reported).
		n := 0
		for f := ex.curFrame; f != nil; f = f.caller {
			if f.fn == fn {
				n++
			}
		}
		if n >= bmcMaxRecursion {
			panic(pathEnd{"seq-overflow"})
		}
	}
	if ex.res != nil && fn.Pkg != nil && strings.HasPrefix(fn.Pkg.Pkg.Path(), pikeMod) && !ex.res.Funcs[fn.String()] {
		// pike's own functions only: harness code lives in overlaid zz_ files, package initialisers are noise
		own := fn.Synthetic == "" && fn.Name() != "init" && !strings.HasPrefix(fn.Name(), "init#")
		if pos := fn.Pos(); own && pos.IsValid() && strings.HasPrefix(filepath.Base(ex.ld.Fset.Position(pos).Filename), "zz_") {
			own = false
		}
		if own {
			if ex.res.Funcs == nil {
				ex.res.Funcs = map[string]bool{}
			}
			ex.res.Funcs[fn.String()] = true
		}
	}
	fr := &Frame{fn: fn, env: make(map[ssa.Value]Value, 32), visits: map[int]int{}, caller: ex.curFrame, callPos: ex.curPos}
	ex.curFrame = fr
	defer func() { ex.depth--; ex.curFrame = fr.caller }()
	for i, p := range fn.Params {
		fr.env[p] = args[i]
	}
	for i, fv := range fn.FreeVars {
		fr.env[fv] = bind[i]
	}
	block := fn.Blocks[0]
	var prev *ssa.BasicBlock
	for {
		next, done := ex.runBlockGuard(fr, block, prev)
		if done {
			return fr.result
		}
		prev, block = block, next
	}
}

// runBlockGuard runs a block, intercepting Go panics so that defers run.
func (ex *Exec) runBlockGuard(fr *Frame, block, prev *ssa.BasicBlock) (next *ssa.BasicBlock, done bool) {
	defer func() {
		if r := recover(); r != nil {
			gp, ok := r.(*goPanic)
			if !ok {
				panic(r)
			}
			// run deferred calls while panicking
			fr.panicking = gp
			ex.runDefers(fr)
			if fr.panicking != nil {
				panic(fr.panicking)
			}
			// recovered
			if fr.fn.Recover != nil {
				next, done = fr.fn.Recover, false
				return
			}
			// no named results: return zero values
			fr.result = ex.zeroResults(fr.fn)
			next, done = nil, true
		}
	}()
	return ex.runBlock(fr, block, prev)
}

func (ex *Exec) zeroResults(fn *ssa.Function) Value {
	res := fn.Signature.Results()
	switch res.Len() {
	case 0:
		return nil
	case 1:
		return ex.zero(res.At(0).Type())
	}
	tv := make(TupleV, res.Len())
	for i := range tv {
		tv[i] = ex.zero(res.At(i).Type())
	}
	return tv
}

func (ex *Exec) runDefers(fr *Frame) {
	for len(fr.defers) > 0 {
		d := fr.defers[len(fr.defers)-1]
		fr.defers = fr.defers[:len(fr.defers)-1]
		func() {
			defer func() {
				if r := recover(); r != nil {
					if gp, ok := r.(*goPanic); ok {
						// a panic inside a deferred call replaces the current one
						fr.panicking = gp
						return
					}
					panic(r)
				}
			}()
			ex.invoke(d.fv, d.args, fr)
		}()
	}
}

func (ex *Exec) get(fr *Frame, v ssa.Value) Value {
	switch v := v.(type) {
	case *ssa.Const:
		return ex.constValue(v)
	case *ssa.Global:
		return &Pointer{Obj: ex.globalObj(v)}
	case *ssa.Function:
		return &FuncV{Fn: v}
	case *ssa.Builtin:
		return &FuncV{Intr: "builtin:" + v.Name()}
	}
	if r, ok := fr.env[v]; ok {
		return r
	}
	panic(unsupported(fmt.Sprintf("value %s (%T) not in environment of %s", v.Name(), v, fr.fn)))
}

func (ex *Exec) globalObj(g *ssa.Global) *Object {
	name := g.String()
	if o, ok := ex.globals[name]; ok {
		return o
	}
	elem := g.Type().(*types.Pointer).Elem()
	o := ex.newObject(elem, ex.zero(elem), "global:"+name)
	// exported error variables of packages that are not executed from source (io.EOF,
	// lz4.ErrInvalidSourceShortBuffer, ...) stand for themselves: one unique error value each
	if types.Identical(elem, types.Universe.Lookup("error").Type()) && g.Pkg != nil && !strings.HasPrefix(g.Pkg.Pkg.Path(), pikeMod) && len(g.Pkg.Members) > 0 {
		if fn := g.Pkg.Func("init"); fn == nil || fn.Blocks == nil {
			// golang.org/x/net/context re-exports the standard library's values
			o.Val = ex.libError(strings.Replace(name, "golang.org/x/net/context.", "context.", 1))
		}
	}
	o.Name = name
	o.Owner = -1
	ex.globals[name] = o
	return o
}

func (ex *Exec) constValue(c *ssa.Const) Value {
	t := c.Type()
	if c.Value == nil {
		return ex.zero(t)
	}
	if isString(t) {
		return ex.constStr(constant.StringVal(c.Value))
	}
	if b, ok := t.Underlying().(*types.Basic); ok {
		switch {
		case b.Info()&types.IsBoolean != 0:
			return ex.tb.Bool(constant.BoolVal(c.Value))
		case b.Info()&types.IsInteger != 0:
			w, _, _ := intWidth(t)
			if i, ok := constant.Int64Val(constant.ToInt(c.Value)); ok {
				return ex.tb.BV(w, uint64(i))
			}
			u, _ := constant.Uint64Val(constant.ToInt(c.Value))
			return ex.tb.BV(w, u)
		case b.Info()&types.IsFloat != 0:
			f, _ := constant.Float64Val(c.Value)
			return &Opaque{Kind: "float", Data: f}
		}
	}
	panic(unsupported("constant of type " + t.String()))
}

func (ex *Exec) runBlock(fr *Frame, block, prev *ssa.BasicBlock) (*ssa.BasicBlock, bool) {
	fr.visits[block.Index]++
	if fr.visits[block.Index] > ex.loopBound {
		panic(unsupported(fmt.Sprintf("unwinding bound %d exceeded in %s block %d", ex.loopBound, fr.fn, block.Index)))
	}
	// phis first (parallel assignment)
	var phiVals []Value
	var phis []*ssa.Phi
	for _, ins := range block.Instrs {
		phi, ok := ins.(*ssa.Phi)
		if !ok {
			break
		}
		for i, p := range block.Preds {
			if p == prev {
				phiVals = append(phiVals, ex.get(fr, phi.Edges[i]))
				phis = append(phis, phi)
				break
			}
		}
	}
	for i, phi := range phis {
		fr.env[phi] = phiVals[i]
	}
	for _, ins := range block.Instrs {
		ex.steps++
		if ex.steps > ex.maxSteps {
			panic(unsupported("step budget exceeded"))
		}
		if ex.abort != nil && ex.steps&63 == 0 && atomic.LoadInt32(ex.abort) != 0 {
			panic(pathEnd{"aborted"})
		}
		if p := ins.Pos(); p.IsValid() {
			ex.curPos = p
		}
		switch ins := ins.(type) {
		case *ssa.Phi, *ssa.DebugRef:
			continue
		case *ssa.If:
			c := ex.get(fr, ins.Cond).(*Term)
			if ex.branch(c) {
				return block.Succs[0], false
			}
			return block.Succs[1], false
		case *ssa.Jump:
			return block.Succs[0], false
		case *ssa.Return:
			switch len(ins.Results) {
			case 0:
				fr.result = nil
			case 1:
				fr.result = ex.get(fr, ins.Results[0])
			default:
				tv := make(TupleV, len(ins.Results))
				for i, r := range ins.Results {
					tv[i] = ex.get(fr, r)
				}
				fr.result = tv
			}
			return nil, true
		case *ssa.Panic:
			v := ex.get(fr, ins.X)
			panic(&goPanic{val: v, desc: "panic: " + ex.describePanic(v)})
		case *ssa.RunDefers:
			ex.runDefers(fr)
			if fr.panicking != nil {
				p := fr.panicking
				fr.panicking = nil
				panic(p)
			}
		case *ssa.Defer:
			fv, args := ex.prepareCall(fr, &ins.Call)
			fr.defers = append(fr.defers, deferred{fv: fv, args: args, call: &ins.Call})
		case *ssa.Go:
			fv, args := ex.prepareCall(fr, &ins.Call)
			ex.spawn(fv, args, fr)
		case *ssa.Store:
			p := ex.get(fr, ins.Addr).(*Pointer)
			ex.store(p, ex.get(fr, ins.Val))
		case *ssa.MapUpdate:
			ex.mapUpdate(ex.get(fr, ins.Map), ex.get(fr, ins.Key), ex.get(fr, ins.Value))
		case *ssa.Send:
			ex.chanSend(ex.get(fr, ins.Chan).(*ChanV), ex.get(fr, ins.X))
		case ssa.Value:
			fr.env[ins] = ex.evalValue(fr, ins)
		default:
			panic(unsupported(fmt.Sprintf("instruction %T", ins)))
		}
	}
	panic("block without terminator")
}

func (ex *Exec) describePanic(v Value) string {
	if iv, ok := v.(*IfaceV); ok && iv.Typ != nil {
		if s, ok := iv.Val.(*StringV); ok {
			if g, ok := ex.goString(s); ok {
				return g
			}
		}
		return iv.Typ.String()
	}
	return "?"
}

func (ex *Exec) evalValue(fr *Frame, ins ssa.Value) Value {
	switch ins := ins.(type) {
	case *ssa.Alloc:
		t := ins.Type().(*types.Pointer).Elem()
		o := ex.newObject(t, ex.zero(t), fr.fn.Name()+":"+ins.Name())
		return &Pointer{Obj: o}
	case *ssa.BinOp:
		return ex.binop(ins.Op, ex.get(fr, ins.X), ex.get(fr, ins.Y), ins.X.Type())
	case *ssa.UnOp:
		return ex.unop(fr, ins)
	case *ssa.Call:
		fv, args := ex.prepareCall(fr, &ins.Call)
		return ex.invoke(fv, args, fr)
	case *ssa.ChangeInterface:
		return ex.get(fr, ins.X)
	case *ssa.ChangeType:
		return ex.get(fr, ins.X)
	case *ssa.Convert:
		return ex.convert(ex.get(fr, ins.X), ins.X.Type(), ins.Type())
	case *ssa.MakeInterface:
		return &IfaceV{Typ: ins.X.Type(), Val: ex.get(fr, ins.X)}
	case *ssa.Extract:
		return ex.get(fr, ins.Tuple).(TupleV)[ins.Index]
	case *ssa.Slice:
		return ex.sliceOp(fr, ins)
	case *ssa.MakeChan:
		n := ex.concInt(ex.get(fr, ins.Size).(*Term), "chan size")
		return ex.makeChan(n)
	case *ssa.MakeClosure:
		binds := make([]Value, len(ins.Bindings))
		for i, b := range ins.Bindings {
			binds[i] = ex.get(fr, b)
		}
		return &FuncV{Fn: ins.Fn.(*ssa.Function), Bind: binds}
	case *ssa.MakeMap:
		mt := ins.Type().Underlying().(*types.Map)
		ex.nextMap++
		return &MapV{M: &MapObj{ID: ex.nextMap, KeyT: mt.Key(), ValT: mt.Elem()}}
	case *ssa.MakeSlice:
		lt := ex.get(fr, ins.Len).(*Term)
		ct := ex.get(fr, ins.Cap).(*Term)
		lt64, ct64 := ex.tb.SExt(lt, 64), ex.tb.SExt(ct, 64)
		ex.check(ex.tb.Cmp(OpSle, ex.i64(0), lt64), "makeslice: len out of range")
		ex.check(ex.tb.Cmp(OpSle, lt64, ct64), "makeslice: cap out of range")
		ex.noteAlloc(ct64)
		if lim, ok := ex.ghost["allocLimit"].(*Term); ok {
			within := ex.tb.Cmp(OpSle, ct64, lim)
			if !within.IsTrue() && !ex.branch(within) {
				// prefer a counterexample with a large allocation (robust native replay)
				big := ex.tb.Cmp(OpSle, ex.i64(1<<24), ct64)
				if ex.feasible(big) {
					ex.addPC(big)
				}
				panic(&goPanic{val: &IfaceV{Typ: types.Typ[types.String], Val: ex.constStr("alloc")}, name: "alloc-bound",
					desc: "allocation sized by a decoded length exceeds the harness's bound (make)"})
			}
		}
		n := ex.concInt(ct64, "makeslice cap")
		et := ins.Type().Underlying().(*types.Slice).Elem()
		arr := make(ArrayV, n)
		for i := range arr {
			arr[i] = ex.zero(et)
		}
		o := ex.newObject(nil, arr, fr.fn.Name()+":makeslice")
		return &SliceV{Arr: o, Off: ex.i64(0), Len: lt64, Cap: ct64, Elem: et}
	case *ssa.Range:
		return ex.rangeStart(ex.get(fr, ins.X))
	case *ssa.Next:
		return ex.rangeNext(ex.get(fr, ins.Iter), ins)
	case *ssa.FieldAddr:
		p := ex.get(fr, ins.X).(*Pointer)
		if p.IsNil() {
			ex.goPanicf("nil pointer dereference (field %d of %s)", ins.Field, ins.X.Type())
		}
		if p.Code != nil {
			panic(unsupported("field access through a pointer that was read from shared memory (thread mode)"))
		}
		return &Pointer{Obj: p.Obj, Path: appendPath(p.Path, PathEl{Idx: ins.Field})}
	case *ssa.Field:
		return copyValue(ex.get(fr, ins.X).(StructV)[ins.Field])
	case *ssa.IndexAddr:
		return ex.indexAddr(fr, ins)
	case *ssa.Index:
		return ex.indexOp(fr, ins)
	case *ssa.Lookup:
		return ex.lookup(fr, ins)
	case *ssa.TypeAssert:
		return ex.typeAssert(fr, ins)
	case *ssa.Select:
		// thread mode: a non-blocking select with one send case (send-or-skip)
		if ex.inThread() && !ins.Blocking && len(ins.States) == 1 && ins.States[0].Dir == types.SendOnly {
			st := ins.States[0]
			var vals []*Term
			ex.flatten(ex.get(fr, st.Send), &vals)
			idx := ex.tmVar("sel", 64)
			ex.tmEvent(&Event{Kind: "trysend", Ch: ex.chanCode(ex.get(fr, st.Chan).(*ChanV)), Vals: vals, Var: idx, Pos: ex.curPos})
			return TupleV{idx, ex.tb.False}
		}
		panic(unsupported("select"))
	}
	panic(unsupported(fmt.Sprintf("value instruction %T", ins)))
}

func appendPath(p []PathEl, e PathEl) []PathEl {
	n := make([]PathEl, len(p)+1)
	copy(n, p)
	n[len(p)] = e
	return n
}

// ---------- memory ----------

func (ex *Exec) navigate(p *Pointer) (container *Value, last *PathEl, parent Value) {
	if p.IsNil() {
		ex.goPanicf("nil pointer dereference")
	}
	if p.Code != nil {
		panic(unsupported("dereference of a pointer that was read from shared memory (thread mode)"))
	}
	cur := &p.Obj.Val
	for i := range p.Path {
		el := &p.Path[i]
		switch c := (*cur).(type) {
		case StructV:
			cur = &c[el.Idx]
		case ArrayV:
			if el.Sym != nil {
				if i != len(p.Path)-1 {
					panic(unsupported("symbolic index in the middle of an address path"))
				}
				return cur, el, c
			}
			if el.Idx < 0 || el.Idx >= len(c) {
				ex.goPanicf("index out of range [%d] with length %d", el.Idx, len(c))
			}
			cur = &c[el.Idx]
		default:
			panic(unsupported(fmt.Sprintf("address path through %T", c)))
		}
	}
	return cur, nil, nil
}

func (ex *Exec) load(p *Pointer) Value {
	cur, symEl, parent := ex.navigate(p)
	if symEl != nil {
		arr := parent.(ArrayV)
		if len(p.Path) == 1 && p.Obj.UF != "" {
			return ex.tb.App(p.Obj.UF, 8, symEl.Sym)
		}
		return ex.muxRead(arr, symEl.Sym, 0, len(arr))
	}
	if ex.inThread() && ex.isSharedObj(p.Obj) {
		return ex.tmLoad(p, *cur, ex.curPos)
	}
	if w, ok := ex.watchLock[p.Obj]; ok {
		ex.checkDiscipline(w, p, false)
	}
	return copyValue(*cur)
}

func (ex *Exec) store(p *Pointer, v Value) {
	cur, symEl, parent := ex.navigate(p)
	if p.Obj.Frozen {
		ex.noteFrozenWrite(p)
	}
	if w, ok := ex.watchLock[p.Obj]; ok {
		ex.checkDiscipline(w, p, true)
		if len(w.deep) > 0 {
			ex.watchDeepValue(w, v)
		}
	}
	if len(ex.watchPublish) > 0 {
		if ex.watchPublish[fmt.Sprintf("%d%s", p.Obj.ID, pathKey(p.Path))] {
			if vp, ok := v.(*Pointer); ok && !vp.IsNil() && vp.Obj != nil {
				// publication: from now on the pointee must not be written
				vp.Obj.Frozen = true
			}
			if sv, ok := v.(*SliceV); ok && sv.Arr != nil {
				// a published slice: its backing array must not be written any more
				sv.Arr.Frozen = true
			}
		}
	}
	p.Obj.UF = ""
	if symEl != nil {
		arr := parent.(ArrayV)
		nv := v.(*Term)
		for i := range arr {
			old, ok := arr[i].(*Term)
			if !ok {
				panic(unsupported("symbolic-index store into non-scalar array"))
			}
			arr[i] = ex.tb.Ite(ex.tb.Eq(symEl.Sym, ex.i64(int64(i))), nv, old)
		}
		return
	}
	if ex.inThread() && ex.isSharedObj(p.Obj) {
		ex.tmStore(p, *cur, v, ex.curPos)
		if !ex.tm.mutableKnown {
			*cur = copyValue(v) // first pass only: keep the thread's own view coherent
		}
		return
	}
	*cur = copyValue(v)
}

// readAt returns obj[pos] for a scalar array and a possibly symbolic position.
func (ex *Exec) readAt(obj *Object, pos *Term) *Term {
	arr := obj.Val.(ArrayV)
	if pos.IsConst() {
		return arr[int(pos.SInt())].(*Term)
	}
	if obj.UF != "" {
		return ex.tb.App(obj.UF, 8, pos)
	}
	return ex.muxRead(arr, pos, 0, len(arr)).(*Term)
}

// muxRead selects arr[idx] for a symbolic idx known to be within [lo,hi).
func (ex *Exec) muxRead(arr ArrayV, idx *Term, lo, hi int) Value {
	if hi > len(arr) {
		hi = len(arr)
	}
	if lo >= hi {
		panic(pathEnd{"infeasible"})
	}
	res, ok := arr[hi-1].(*Term)
	if !ok {
		panic(unsupported("symbolic-index load from non-scalar array"))
	}
	for i := hi - 2; i >= lo; i-- {
		res = ex.tb.Ite(ex.tb.Eq(idx, ex.tb.BV(idx.W, uint64(i))), arr[i].(*Term), res)
	}
	return res
}

func (ex *Exec) noteFrozenWrite(p *Pointer) {
	ex.res.Events = append(ex.res.Events, fmt.Sprintf("write-after-freeze obj%d (%s)%s", p.Obj.ID, p.Obj.Site, ex.where()))
	ex.ghost["frozenWrite"] = ex.tb.True
}

func (ex *Exec) noteAlloc(n *Term) {
	// remember the largest allocation request (as a term) for allocation-bound assertions
	if old, ok := ex.ghost["maxAlloc"].(*Term); ok {
		ex.ghost["maxAlloc"] = ex.tb.Ite(ex.tb.Cmp(OpSlt, old, n), n, old)
	} else {
		ex.ghost["maxAlloc"] = n
	}
}



func (ex *Exec) unop(fr *Frame, ins *ssa.UnOp) Value {
	x := ex.get(fr, ins.X)
	switch ins.Op {
	case token.MUL:
		p := x.(*Pointer)
		v := ex.load(p)
		// the unsafe []byte -> string cast: *(*string)(unsafe.Pointer(&b))
		if sv, ok := v.(*SliceV); ok && isString(ins.Type()) {
			if sv.Arr != nil {
				sv.Arr.Frozen = true
			}
			return &StringV{Arr: sv.Arr, Off: sv.Off, Len: sv.Len}
		}
		return v
	case token.NOT:
		return ex.tb.Not(x.(*Term))
	case token.SUB:
		if t, ok := x.(*Term); ok {
			return ex.tb.Un(OpNeg, t)
		}
		panic(unsupported("negation of non-integer"))
	case token.XOR:
		return ex.tb.Un(OpBNot, x.(*Term))
	case token.ARROW:
		v, ok := ex.chanRecv(x.(*ChanV), ins.Type())
		if ins.CommaOk {
			return TupleV{v, ok}
		}
		return v
	}
	panic(unsupported("unop " + ins.Op.String()))
}

func (ex *Exec) sliceOp(fr *Frame, ins *ssa.Slice) Value {
	x := ex.get(fr, ins.X)
	var lo, hi, max *Term
	if ins.Low != nil {
		lo = ex.tb.SExt(ex.get(fr, ins.Low).(*Term), 64)
	}
	if ins.High != nil {
		hi = ex.tb.SExt(ex.get(fr, ins.High).(*Term), 64)
	}
	if ins.Max != nil {
		max = ex.tb.SExt(ex.get(fr, ins.Max).(*Term), 64)
	}
	switch x := x.(type) {
	case *Pointer: // *array
		if x.IsNil() {
			ex.goPanicf("slice of nil array pointer")
		}
		cur, _, _ := ex.navigate(x)
		arr := (*cur).(ArrayV)
		var obj *Object
		if len(x.Path) == 0 {
			obj = x.Obj
		} else {
			panic(unsupported("slice of array embedded in another object"))
		}
		n := ex.i64(int64(len(arr)))
		return ex.reslice(obj, ex.i64(0), n, n, lo, hi, max, ins.Type().Underlying().(*types.Slice).Elem())
	case *SliceV:
		return ex.reslice(x.Arr, x.Off, x.Len, x.Cap, lo, hi, max, x.Elem)
	case *StringV:
		if lo == nil {
			lo = ex.i64(0)
		}
		if hi == nil {
			hi = x.Len
		}
		ex.check(ex.tb.And(ex.tb.Cmp(OpSle, ex.i64(0), lo), ex.tb.Cmp(OpSle, lo, hi), ex.tb.Cmp(OpSle, hi, x.Len)),
			"slice bounds out of range (string)")
		return &StringV{Arr: x.Arr, Off: ex.tb.Add(x.Off, lo), Len: ex.tb.Sub(hi, lo)}
	}
	panic(unsupported(fmt.Sprintf("slice of %T", x)))
}

func (ex *Exec) reslice(arr *Object, off, ln, cp, lo, hi, max *Term, elem types.Type) Value {
	if lo == nil {
		lo = ex.i64(0)
	}
	if hi == nil {
		hi = ln
	}
	if max == nil {
		max = cp
	}
	ex.check(ex.tb.And(ex.tb.Cmp(OpSle, ex.i64(0), lo), ex.tb.Cmp(OpSle, lo, hi), ex.tb.Cmp(OpSle, hi, max), ex.tb.Cmp(OpSle, max, cp)),
		"slice bounds out of range")
	return &SliceV{Arr: arr, Off: ex.tb.Add(off, lo), Len: ex.tb.Sub(hi, lo), Cap: ex.tb.Sub(max, lo), Elem: elem}
}

func (ex *Exec) indexAddr(fr *Frame, ins *ssa.IndexAddr) Value {
	x := ex.get(fr, ins.X)
	idx := ex.tb.SExt(ex.get(fr, ins.Index).(*Term), 64)
	switch x := x.(type) {
	case *Pointer: // *array
		if x.IsNil() {
			ex.goPanicf("nil pointer dereference (index)")
		}
		cur, _, _ := ex.navigate(x)
		arr := (*cur).(ArrayV)
		ex.check(ex.tb.And(ex.tb.Cmp(OpSle, ex.i64(0), idx), ex.tb.Cmp(OpSlt, idx, ex.i64(int64(len(arr))))), "index out of range (array)")
		if idx.IsConst() {
			return &Pointer{Obj: x.Obj, Path: appendPath(x.Path, PathEl{Idx: int(idx.SInt())})}
		}
		return &Pointer{Obj: x.Obj, Path: appendPath(x.Path, PathEl{Sym: idx})}
	case *SliceV:
		ex.check(ex.tb.And(ex.tb.Cmp(OpSle, ex.i64(0), idx), ex.tb.Cmp(OpSlt, idx, x.Len)), "index out of range (slice)")
		pos := ex.tb.Add(x.Off, idx)
		if !pos.IsConst() {
			// arrays of non-scalars (pointers, structs, ...) cannot be muxed: case-split the index
			if arr := x.Arr.Val.(ArrayV); len(arr) > 0 {
				if _, scalar := arr[0].(*Term); !scalar {
					pos = ex.i64(int64(ex.concInt(pos, "index into non-scalar slice")))
				}
			}
		}
		if pos.IsConst() {
			return &Pointer{Obj: x.Arr, Path: []PathEl{{Idx: int(pos.SInt())}}}
		}
		return &Pointer{Obj: x.Arr, Path: []PathEl{{Sym: pos}}}
	}
	panic(unsupported(fmt.Sprintf("indexaddr of %T", x)))
}

func (ex *Exec) indexOp(fr *Frame, ins *ssa.Index) Value {
	x := ex.get(fr, ins.X)
	idx := ex.tb.SExt(ex.get(fr, ins.Index).(*Term), 64)
	switch x := x.(type) {
	case *StringV:
		ex.check(ex.tb.And(ex.tb.Cmp(OpSle, ex.i64(0), idx), ex.tb.Cmp(OpSlt, idx, x.Len)), "index out of range (string)")
		return ex.strByteAtTerm(x, idx)
	case ArrayV:
		if idx.IsConst() {
			i := int(idx.SInt())
			if i < 0 || i >= len(x) {
				ex.goPanicf("index out of range")
			}
			return copyValue(x[i])
		}
		ex.check(ex.tb.And(ex.tb.Cmp(OpSle, ex.i64(0), idx), ex.tb.Cmp(OpSlt, idx, ex.i64(int64(len(x))))), "index out of range (array value)")
		return ex.muxRead(x, idx, 0, len(x))
	}
	panic(unsupported(fmt.Sprintf("index of %T", x)))
}

// strByteAtTerm returns s[i] for a (possibly symbolic) in-range index.
func (ex *Exec) strByteAtTerm(s *StringV, i *Term) *Term {
	pos := ex.tb.Add(s.Off, i)
	return ex.readAt(s.Arr, pos)
}

// ---------- conversions ----------

func (ex *Exec) convert(v Value, from, to types.Type) Value {
	fu, tu := from.Underlying(), to.Underlying()
	// integer <-> integer
	if fw, fs, ok := intWidth(from); ok && fw > 0 {
		if tw, _, ok2 := intWidth(to); ok2 && tw > 0 {
			t := v.(*Term)
			if tw <= fw {
				return ex.tb.Extract(t, tw-1, 0)
			}
			if fs {
				return ex.tb.SExt(t, tw)
			}
			return ex.tb.ZExt(t, tw)
		}
		if isString(to) {
			// string(rune)
			t := v.(*Term)
			if t.IsConst() {
				return ex.constStr(string(rune(t.SInt())))
			}
			panic(unsupported("string(symbolic rune)"))
		}
		if b, ok := tu.(*types.Basic); ok && b.Info()&types.IsFloat != 0 {
			return &Opaque{Kind: "float", ID: v.(*Term)}
		}
		if b, ok := tu.(*types.Basic); ok && b.Kind() == types.UnsafePointer {
			panic(unsupported("uintptr -> unsafe.Pointer"))
		}
	}
	if b, ok := fu.(*types.Basic); ok && b.Info()&types.IsFloat != 0 {
		if o, ok := v.(*Opaque); ok {
			if tw, _, ok2 := intWidth(to); ok2 && tw > 0 {
				if f, isF := o.Data.(float64); isF {
					return ex.tb.BV(tw, uint64(int64(f)))
				}
				if o.ID != nil {
					return ex.tb.SExt(o.ID, tw)
				}
			}
			return o
		}
	}
	// string <-> []byte
	if isString(from) {
		if sl, ok := tu.(*types.Slice); ok {
			s := v.(*StringV)
			if b, ok := sl.Elem().Underlying().(*types.Basic); ok && b.Kind() == types.Uint8 {
				return ex.copyBytes(s.Arr, s.Off, s.Len, sl.Elem())
			}
			panic(unsupported("string -> []rune"))
		}
		if isString(to) {
			return v
		}
	}
	if sl, ok := fu.(*types.Slice); ok && isString(to) {
		if b, ok := sl.Elem().Underlying().(*types.Basic); ok && b.Kind() == types.Uint8 {
			s := v.(*SliceV)
			c := ex.copyBytes(s.Arr, s.Off, s.Len, sl.Elem()).(*SliceV)
			return &StringV{Arr: c.Arr, Off: c.Off, Len: c.Len}
		}
	}
	// pointer <-> unsafe.Pointer
	if _, ok := fu.(*types.Pointer); ok {
		if b, ok := tu.(*types.Basic); ok && b.Kind() == types.UnsafePointer {
			return v
		}
	}
	if b, ok := fu.(*types.Basic); ok && b.Kind() == types.UnsafePointer {
		if _, ok := tu.(*types.Pointer); ok {
			return v
		}
	}
	if types.Identical(fu, tu) {
		return v
	}
	if _, ok := fu.(*types.Slice); ok {
		if _, ok := tu.(*types.Slice); ok {
			return v
		}
	}
	panic(unsupported(fmt.Sprintf("convert %s -> %s", from, to)))
}

// copyBytes copies a byte range into a fresh array, keeping a symbolic offset/length symbolic.
func (ex *Exec) copyBytes(arr *Object, off, ln *Term, elem types.Type) Value {
	if arr == nil || (ln.IsConst() && ln.Val == 0) {
		o := ex.newObject(nil, ArrayV{}, "bytes")
		return &SliceV{Arr: o, Off: ex.i64(0), Len: ex.i64(0), Cap: ex.i64(0), Elem: elem}
	}
	src := arr.Val.(ArrayV)
	if off.IsConst() && ln.IsConst() {
		o, n := int(off.SInt()), int(ln.SInt())
		dst := make(ArrayV, n)
		copy(dst, src[o:o+n])
		obj := ex.newObject(nil, dst, "bytes")
		return &SliceV{Arr: obj, Off: ex.i64(0), Len: ln, Cap: ln, Elem: elem}
	}
	dst := make(ArrayV, len(src))
	copy(dst, src)
	obj := ex.newObject(nil, dst, "bytes")
	obj.UF = arr.UF
	return &SliceV{Arr: obj, Off: off, Len: ln, Cap: ln, Elem: elem}
}

// ---------- binary operators ----------

func (ex *Exec) binop(op token.Token, x, y Value, xt types.Type) Value {
	tb := ex.tb
	switch a := x.(type) {
	case *Term:
		b := y.(*Term)
		if a.W == 0 {
			switch op {
			case token.EQL:
				return tb.Eq(a, b)
			case token.NEQ:
				return tb.Ne(a, b)
			case token.AND:
				return tb.And(a, b)
			case token.OR:
				return tb.Or(a, b)
			}
			panic(unsupported("bool binop " + op.String()))
		}
		_, signed, _ := intWidth(xt)
		if op == token.SHL || op == token.SHR {
			// bring the shift count to the operand width, saturating
			if b.W > a.W {
				big := tb.Cmp(OpUle, tb.BV(b.W, uint64(a.W)), b)
				b = tb.Ite(big, tb.BV(a.W, uint64(a.W)), tb.Extract(b, a.W-1, 0))
			} else if b.W < a.W {
				b = tb.ZExt(b, a.W)
			}
			if op == token.SHL {
				return tb.Bin(OpShl, a, b)
			}
			if signed {
				return tb.Bin(OpAshr, a, b)
			}
			return tb.Bin(OpLshr, a, b)
		}
		switch op {
		case token.ADD:
			return tb.Bin(OpAdd, a, b)
		case token.SUB:
			return tb.Bin(OpSub, a, b)
		case token.MUL:
			return tb.Bin(OpMul, a, b)
		case token.QUO, token.REM:
			ex.check(tb.Ne(b, tb.BV(b.W, 0)), "integer divide by zero")
			if signed {
				if op == token.QUO {
					return tb.Bin(OpSDiv, a, b)
				}
				return tb.Bin(OpSRem, a, b)
			}
			if op == token.QUO {
				return tb.Bin(OpUDiv, a, b)
			}
			return tb.Bin(OpURem, a, b)
		case token.AND:
			return tb.Bin(OpBAnd, a, b)
		case token.OR:
			return tb.Bin(OpBOr, a, b)
		case token.XOR:
			return tb.Bin(OpBXor, a, b)
		case token.AND_NOT:
			return tb.Bin(OpBAnd, a, tb.Un(OpBNot, b))
		case token.EQL:
			return tb.Eq(a, b)
		case token.NEQ:
			return tb.Ne(a, b)
		case token.LSS:
			if signed {
				return tb.Cmp(OpSlt, a, b)
			}
			return tb.Cmp(OpUlt, a, b)
		case token.LEQ:
			if signed {
				return tb.Cmp(OpSle, a, b)
			}
			return tb.Cmp(OpUle, a, b)
		case token.GTR:
			if signed {
				return tb.Cmp(OpSlt, b, a)
			}
			return tb.Cmp(OpUlt, b, a)
		case token.GEQ:
			if signed {
				return tb.Cmp(OpSle, b, a)
			}
			return tb.Cmp(OpUle, b, a)
		}
	case *StringV:
		b := y.(*StringV)
		switch op {
		case token.ADD:
			return ex.strConcat(a, b)
		case token.EQL:
			return ex.strEq(a, b)
		case token.NEQ:
			return tb.Not(ex.strEq(a, b))
		case token.LSS, token.LEQ, token.GTR, token.GEQ:
			ga, ok1 := ex.goString(a)
			gb, ok2 := ex.goString(b)
			if ok1 && ok2 {
				switch op {
				case token.LSS:
					return tb.Bool(ga < gb)
				case token.LEQ:
					return tb.Bool(ga <= gb)
				case token.GTR:
					return tb.Bool(ga > gb)
				default:
					return tb.Bool(ga >= gb)
				}
			}
			panic(unsupported("ordering comparison of symbolic strings"))
		}
	default:
		switch op {
		case token.EQL:
			return ex.valEq(x, y)
		case token.NEQ:
			return tb.Not(ex.valEq(x, y))
		}
	}
	panic(unsupported(fmt.Sprintf("binop %s on %T", op, x)))
}

func (ex *Exec) strConcat(a, b *StringV) *StringV {
	ab, bb := ex.strBytes(a), ex.strBytes(b)
	return ex.strFromTerms(append(append([]*Term{}, ab...), bb...))
}

func (ex *Exec) strEq(a, b *StringV) *Term {
	tb := ex.tb
	if a.cs != nil && b.cs != nil {
		return tb.Bool(*a.cs == *b.cs)
	}
	lenEq := tb.Eq(a.Len, b.Len)
	if lenEq.IsFalse() {
		return tb.False
	}
	// choose the side with a concrete length to drive the comparison
	var n int
	switch {
	case a.Len.IsConst():
		n = int(a.Len.SInt())
	case b.Len.IsConst():
		n = int(b.Len.SInt())
	default:
		// both symbolic: compare up to the smaller backing size, guarded by i < len
		n = -1
	}
	conj := []*Term{lenEq}
	if n >= 0 {
		for i := 0; i < n; i++ {
			it := ex.i64(int64(i))
			conj = append(conj, tb.Eq(ex.strByteAtSafe(a, it), ex.strByteAtSafe(b, it)))
		}
		return tb.And(conj...)
	}
	maxn := len(a.Arr.Val.(ArrayV))
	if m := len(b.Arr.Val.(ArrayV)); m < maxn {
		maxn = m
	}
	for i := 0; i < maxn; i++ {
		it := ex.i64(int64(i))
		conj = append(conj, tb.Implies(tb.Cmp(OpSlt, it, a.Len), tb.Eq(ex.strByteAtSafe(a, it), ex.strByteAtSafe(b, it))))
	}
	return tb.And(conj...)
}

// strByteAtSafe: like strByteAtTerm but yields 0 when the position is outside the backing array.
func (ex *Exec) strByteAtSafe(s *StringV, i *Term) *Term {
	if s.Arr == nil {
		return ex.tb.BV(8, 0)
	}
	arr := s.Arr.Val.(ArrayV)
	pos := ex.tb.Add(s.Off, i)
	if pos.IsConst() {
		p := int(pos.SInt())
		if p < 0 || p >= len(arr) {
			return ex.tb.BV(8, 0)
		}
		return arr[p].(*Term)
	}
	if len(arr) == 0 {
		return ex.tb.BV(8, 0)
	}
	return ex.readAt(s.Arr, pos)
}

func (ex *Exec) valEq(x, y Value) *Term {
	tb := ex.tb
	switch a := x.(type) {
	case *Term:
		return tb.Eq(a, y.(*Term))
	case *StringV:
		return ex.strEq(a, y.(*StringV))
	case *Pointer:
		b := y.(*Pointer)
		if a.Code != nil || b.Code != nil {
			return tb.Eq(ex.ptrCode(a), ex.ptrCode(b))
		}
		if a.IsNil() || b.IsNil() {
			return tb.Bool(a.IsNil() && b.IsNil())
		}
		if a.Obj != b.Obj || len(a.Path) != len(b.Path) {
			return tb.False
		}
		for i := range a.Path {
			if a.Path[i].Sym != nil || b.Path[i].Sym != nil {
				panic(unsupported("comparison of symbolic-index pointers"))
			}
			if a.Path[i].Idx != b.Path[i].Idx {
				return tb.False
			}
		}
		return tb.True
	case *IfaceV:
		b := y.(*IfaceV)
		if a.Typ == nil || b.Typ == nil {
			return tb.Bool(a.Typ == nil && b.Typ == nil)
		}
		if !sameType(a.Typ, b.Typ) {
			return tb.False
		}
		return ex.valEq(a.Val, b.Val)
	case *MapV:
		b := y.(*MapV)
		return tb.Bool(a.M == b.M)
	case *ChanV:
		b := y.(*ChanV)
		if a.Sym != nil || b.Sym != nil {
			return tb.Eq(ex.chanCode(a), ex.chanCode(b))
		}
		return tb.Bool(a.C == b.C)
	case *FuncV:
		b := y.(*FuncV)
		return tb.Bool(a.Fn == nil && a.Intr == "" && b.Fn == nil && b.Intr == "")
	case *SliceV:
		b := y.(*SliceV)
		// slices are only comparable with nil
		if a.NilIf != nil && b.Arr == nil && b.NilIf == nil {
			return a.NilIf
		}
		if b.NilIf != nil && a.Arr == nil && a.NilIf == nil {
			return b.NilIf
		}
		return tb.Bool(a.Arr == nil && b.Arr == nil)
	case StructV:
		b := y.(StructV)
		conj := []*Term{}
		for i := range a {
			conj = append(conj, ex.valEq(a[i], b[i]))
		}
		return tb.And(conj...)
	case ArrayV:
		b := y.(ArrayV)
		conj := []*Term{}
		for i := range a {
			conj = append(conj, ex.valEq(a[i], b[i]))
		}
		return tb.And(conj...)
	case *Opaque:
		b, ok := y.(*Opaque)
		if !ok {
			return tb.False
		}
		if a == b {
			return tb.True
		}
		if a.ID != nil && b.ID != nil {
			return tb.Eq(a.ID, b.ID)
		}
		return tb.False
	}
	panic(unsupported(fmt.Sprintf("equality on %T", x)))
}

// ---------- maps ----------

func (ex *Exec) mapFind(m *MapObj, key Value) *MapEntry {
	for _, e := range m.Entries {
		if ex.branch(ex.valEq(e.Key, key)) {
			return e
		}
	}
	return nil
}

func (ex *Exec) lookup(fr *Frame, ins *ssa.Lookup) Value {
	x := ex.get(fr, ins.X)
	if s, ok := x.(*StringV); ok {
		idx := ex.tb.SExt(ex.get(fr, ins.Index).(*Term), 64)
		ex.check(ex.tb.And(ex.tb.Cmp(OpSle, ex.i64(0), idx), ex.tb.Cmp(OpSlt, idx, s.Len)), "index out of range (string)")
		return ex.strByteAtTerm(s, idx)
	}
	m := x.(*MapV)
	vt := ins.X.Type().Underlying().(*types.Map).Elem()
	var val Value
	found := false
	if m.M != nil {
		if e := ex.mapFind(m.M, ex.get(fr, ins.Index)); e != nil {
			val, found = copyValue(e.Val), true
		}
	}
	if !found {
		val = ex.zero(vt)
	}
	if ins.CommaOk {
		return TupleV{val, ex.tb.Bool(found)}
	}
	return val
}

func (ex *Exec) mapUpdate(mv Value, key, val Value) {
	m := mv.(*MapV)
	if m.M == nil {
		ex.goPanicf("assignment to entry in nil map")
	}
	if m.M.Frozen {
		ex.res.Events = append(ex.res.Events, fmt.Sprintf("write to frozen map%d%s", m.M.ID, ex.where()))
		ex.ghost["frozenWrite"] = ex.tb.True
	}
	if e := ex.mapFind(m.M, key); e != nil {
		e.Val = copyValue(val)
		return
	}
	m.M.Entries = append(m.M.Entries, &MapEntry{Key: copyValue(key), Val: copyValue(val)})
}

func (ex *Exec) mapDelete(m *MapV, key Value) {
	if m.M == nil {
		return
	}
	if m.M.Frozen {
		ex.res.Events = append(ex.res.Events, fmt.Sprintf("delete from frozen map%d%s", m.M.ID, ex.where()))
		ex.ghost["frozenWrite"] = ex.tb.True
	}
	for i, e := range m.M.Entries {
		if ex.branch(ex.valEq(e.Key, key)) {
			m.M.Entries = append(append([]*MapEntry{}, m.M.Entries[:i]...), m.M.Entries[i+1:]...)
			return
		}
	}
}

type rangeIter struct {
	entries []*MapEntry
	str     *StringV
	i       int
}

func (ex *Exec) rangeStart(x Value) Value {
	switch x := x.(type) {
	case *MapV:
		it := &rangeIter{}
		if x.M != nil {
			it.entries = append(it.entries, x.M.Entries...)
		}
		return &Opaque{Kind: "iter", Data: it}
	case *StringV:
		return &Opaque{Kind: "iter", Data: &rangeIter{str: x}}
	}
	panic(unsupported(fmt.Sprintf("range over %T", x)))
}

func (ex *Exec) rangeNext(itv Value, ins *ssa.Next) Value {
	it := itv.(*Opaque).Data.(*rangeIter)
	if ins.IsString {
		bs := ex.strBytes(it.str)
		if it.i >= len(bs) {
			return TupleV{ex.tb.False, ex.i64(0), ex.tb.BV(32, 0)}
		}
		b := bs[it.i]
		if !b.IsConst() {
			// treat as ASCII under an explicit path constraint
			if !ex.branch(ex.tb.Cmp(OpUlt, b, ex.tb.BV(8, 0x80))) {
				panic(unsupported("range over string with symbolic non-ASCII byte"))
			}
		} else if b.Val >= 0x80 {
			panic(unsupported("range over non-ASCII string"))
		}
		idx := it.i
		it.i++
		return TupleV{ex.tb.True, ex.i64(int64(idx)), ex.tb.ZExt(b, 32)}
	}
	tt := ins.Type().(*types.Tuple)
	if it.i >= len(it.entries) {
		return TupleV{ex.tb.False, ex.zero(tt.At(1).Type()), ex.zero(tt.At(2).Type())}
	}
	e := it.entries[it.i]
	it.i++
	return TupleV{ex.tb.True, copyValue(e.Key), copyValue(e.Val)}
}

// ---------- type assertions ----------

func (ex *Exec) implements(dyn types.Type, iface *types.Interface) bool {
	if types.Implements(dyn, iface) {
		return true
	}
	// cross-universe: compare by method names
	ms := types.NewMethodSet(dyn)
	for i := 0; i < iface.NumMethods(); i++ {
		m := iface.Method(i)
		if ms.Lookup(m.Pkg(), m.Name()) == nil {
			found := false
			for j := 0; j < ms.Len(); j++ {
				if ms.At(j).Obj().Name() == m.Name() {
					found = true
				}
			}
			if !found {
				return false
			}
		}
	}
	return true
}

func (ex *Exec) typeAssert(fr *Frame, ins *ssa.TypeAssert) Value {
	x := ex.get(fr, ins.X).(*IfaceV)
	ok := false
	var res Value
	if x.Typ != nil {
		if it, isI := ins.AssertedType.Underlying().(*types.Interface); isI {
			if ex.implements(x.Typ, it) {
				ok, res = true, x
			}
		} else if sameType(x.Typ, ins.AssertedType) {
			ok, res = true, x.Val
		}
	}
	if ins.CommaOk {
		if !ok {
			res = ex.zero(ins.AssertedType)
		}
		return TupleV{res, ex.tb.Bool(ok)}
	}
	if !ok {
		ex.goPanicf("interface conversion: %v is not %v", x.Typ, ins.AssertedType)
	}
	return res
}

// ---------- calls ----------

func (ex *Exec) prepareCall(fr *Frame, call *ssa.CallCommon) (*FuncV, []Value) {
	var args []Value
	var fv *FuncV
	if call.IsInvoke() {
		recv := ex.get(fr, call.Value).(*IfaceV)
		if recv.Typ == nil {
			ex.goPanicf("nil pointer dereference (method %s on nil interface)", call.Method.Name())
		}
		fn := ex.lookupMethod(recv.Typ, call.Method)
		fv = &FuncV{Fn: fn}
		args = append(args, recv.Val)
	} else {
		switch v := call.Value.(type) {
		case *ssa.Function:
			fv = &FuncV{Fn: v}
		case *ssa.Builtin:
			fv = &FuncV{Intr: "builtin:" + v.Name()}
		default:
			fv = ex.get(fr, call.Value).(*FuncV)
		}
	}
	for _, a := range call.Args {
		args = append(args, ex.get(fr, a))
	}
	return fv, args
}

func (ex *Exec) lookupMethod(dyn types.Type, m *types.Func) *ssa.Function {
	for _, prog := range ex.progs() {
		if fn := prog.LookupMethod(dyn, m.Pkg(), m.Name()); fn != nil {
			return fn
		}
	}
	// try by name in donors
	ms := types.NewMethodSet(dyn)
	for i := 0; i < ms.Len(); i++ {
		if ms.At(i).Obj().Name() == m.Name() {
			for _, prog := range ex.progs() {
				if fn := prog.MethodValue(ms.At(i)); fn != nil {
					return fn
				}
			}
		}
	}
	panic(unsupported(fmt.Sprintf("method %s not found on %s", m.Name(), dyn)))
}

func (ex *Exec) progs() []*ssa.Program {
	ps := []*ssa.Program{ex.ld.Prog}
	seen := map[*ssa.Program]bool{ex.ld.Prog: true}
	for _, sp := range ex.ld.Src {
		if !seen[sp.Prog] {
			seen[sp.Prog] = true
			ps = append(ps, sp.Prog)
		}
	}
	return ps
}

func (ex *Exec) invoke(fv *FuncV, args []Value, fr *Frame) Value {
	if fv.Intr != "" {
		if strings.HasPrefix(fv.Intr, "builtin:") {
			return ex.builtin(fv.Intr[8:], args, fr)
		}
		return ex.intrinsic(fv.Intr, nil, args, fr)
	}
	if fv.Fn == nil {
		ex.goPanicf("call of nil function")
	}
	if fv.HasRecv {
		args = append([]Value{fv.Recv}, args...)
	}
	fn := fv.Fn
	name := fn.String()
	if h, ok := ex.hooks[name]; ok && !ex.inHook[name] {
		if !strings.Contains(name, pikeMod+"/") && ex.res != nil && ex.res.NotComparable == "" {
			// the native shim redirects only pike's own functions: a path through a stubbed library
			// function is not comparable with a native run
			ex.res.NotComparable = "library stub " + name
		}
		ex.inHook[name] = true
		defer func() { ex.inHook[name] = false }()
		if ex.inThread() {
			// environment stubs execute atomically
			ex.tmEvent(&Event{Kind: "atomic-begin", Name: h.Name(), Pos: ex.curPos})
			ex.tm.atomic++
			defer func() {
				ex.tm.atomic--
				ex.tmEvent(&Event{Kind: "atomic-end", Name: h.Name()})
			}()
		}
		return ex.callFunction(h, args, nil)
	}
	if fn.Synthetic != "" && fn.Blocks != nil {
		// wrappers / bound methods / thunks have bodies built by go/ssa
		return ex.callFunction(fn, args, fv.Bind)
	}
	if ex.hasIntrinsic(name) {
		return ex.intrinsic(name, fn, args, fr)
	}
	if strings.HasPrefix(fn.Name(), "verif") && fn.Blocks == nil {
		return ex.verifCall(fn, args, fr)
	}
	if fn.Blocks != nil {
		return ex.callFunction(fn, args, fv.Bind)
	}
	if d, ok := ex.ld.donorFn[name]; ok {
		return ex.callFunction(d, args, fv.Bind)
	}
	if ex.lenient {
		return ex.zeroResults(fn)
	}
	panic(unsupported("call to external function " + name))
}

func (ex *Exec) spawn(fv *FuncV, args []Value, fr *Frame) {
	// sequential mode: goroutine bodies are recorded and run when the harness asks (verifRunSpawned)
	lst, _ := ex.ghost["spawned"].([]deferred)
	ex.ghost["spawned"] = append(lst, deferred{fv: fv, args: args})
}

// ---------- channels (sequential mode) ----------

func (ex *Exec) makeChan(n int) *ChanV {
	if ex.inThread() {
		return ex.tmMakeChan(n)
	}
	ex.nextChan++
	return &ChanV{C: &ChanObj{ID: ex.nextChan, Cap: n}}
}

func (ex *Exec) chanSend(c *ChanV, v Value) {
	if ex.inThread() {
		var vals []*Term
		ex.flatten(v, &vals)
		ex.tmEvent(&Event{Kind: "send", Ch: ex.chanCode(c), Vals: vals, Pos: ex.curPos})
		return
	}
	if c.C == nil {
		panic(pathEnd{"blocked: send on nil channel"})
	}
	if c.C.Closed {
		ex.goPanicf("send on closed channel")
	}
	if len(c.C.Buf) < c.C.Cap {
		c.C.Buf = append(c.C.Buf, v)
		return
	}
	ex.res.Events = append(ex.res.Events, fmt.Sprintf("blocked-send chan%d%s", c.C.ID, ex.where()))
	ex.ghost["blocked"] = ex.tb.True
	panic(pathEnd{"blocked: send with no receiver (sequential mode)"})
}

func (ex *Exec) chanRecv(c *ChanV, t types.Type) (Value, *Term) {
	if ex.inThread() {
		var vars []*Term
		v := ex.freshOfType(t, &vars)
		// a receiver first commits to waiting (its own step), then completes with a sender: between the
		// two a non-blocking sender finds nobody waiting
		ex.tm.parks++
		if ex.tm.parks > bmcMaxParks {
			// a thread that parks again and again (a retry loop around a blocking receive): cut,
			// with an unwinding obligation
			panic(pathEnd{"seq-overflow"})
		}
		ex.tmEvent(&Event{Kind: "park", Ch: ex.chanCode(c), Pos: ex.curPos})
		ex.tmEvent(&Event{Kind: "recv", Ch: ex.chanCode(c), Vars: vars, Pos: ex.curPos})
		return v, ex.tb.True
	}
	if c.C == nil {
		panic(pathEnd{"blocked: receive on nil channel"})
	}
	if len(c.C.Buf) > 0 {
		v := c.C.Buf[0]
		c.C.Buf = c.C.Buf[1:]
		return v, ex.tb.True
	}
	if c.C.Closed {
		return ex.zero(t), ex.tb.False
	}
	ex.res.Events = append(ex.res.Events, fmt.Sprintf("blocked-recv chan%d%s", c.C.ID, ex.where()))
	ex.ghost["blocked"] = ex.tb.True
	panic(pathEnd{"blocked: receive with no sender (sequential mode)"})
}

// ---------- builtins ----------

func (ex *Exec) builtin(name string, args []Value, fr *Frame) Value {
	tb := ex.tb
	switch name {
	case "len":
		switch x := args[0].(type) {
		case *StringV:
			return x.Len
		case *SliceV:
			return x.Len
		case *MapV:
			if x.M == nil {
				return ex.i64(0)
			}
			return ex.i64(int64(len(x.M.Entries)))
		case *ChanV:
			if x.C == nil {
				return ex.i64(0)
			}
			return ex.i64(int64(len(x.C.Buf)))
		case ArrayV:
			return ex.i64(int64(len(x)))
		case *Pointer:
			cur, _, _ := ex.navigate(x)
			return ex.i64(int64(len((*cur).(ArrayV))))
		}
	case "cap":
		switch x := args[0].(type) {
		case *SliceV:
			return x.Cap
		case *ChanV:
			return ex.i64(int64(x.C.Cap))
		}
	case "append":
		return ex.appendOp(args[0].(*SliceV), args[1])
	case "copy":
		return ex.copyOp(args[0].(*SliceV), args[1])
	case "delete":
		ex.mapDelete(args[0].(*MapV), args[1])
		return nil
	case "panic":
		panic(&goPanic{val: args[0], desc: "panic: " + ex.describePanic(args[0])})
	case "recover":
		// recover() is effective only when called directly by a deferred function
		caller := fr
		if caller != nil && caller.caller != nil && caller.caller.panicking != nil {
			p := caller.caller.panicking
			caller.caller.panicking = nil
			return p.val
		}
		return &IfaceV{}
	case "close":
		c := args[0].(*ChanV)
		if c.C == nil {
			ex.goPanicf("close of nil channel")
		}
		if c.C.Closed {
			ex.goPanicf("close of closed channel")
		}
		c.C.Closed = true
		return nil
	case "print", "println":
		return nil
	case "min", "max":
		a, b := args[0].(*Term), args[1].(*Term)
		lt := tb.Cmp(OpSlt, a, b)
		if name == "min" {
			return tb.Ite(lt, a, b)
		}
		return tb.Ite(lt, b, a)
	case "ssa:wrapnilchk":
		p := args[0].(*Pointer)
		if p.IsNil() {
			ex.goPanicf("value method called on nil pointer")
		}
		return p
	}
	panic(unsupported("builtin " + name + fmt.Sprintf(" on %T", args[0])))
}

func (ex *Exec) appendOp(s *SliceV, more Value) Value {
	var add []Value
	switch m := more.(type) {
	case *SliceV:
		n := ex.concInt(m.Len, "append source length")
		if n > 0 {
			off := ex.concInt(m.Off, "append source offset")
			add = append(add, m.Arr.Val.(ArrayV)[off:off+n]...)
		}
	case *StringV:
		for _, b := range ex.strBytes(m) {
			add = append(add, b)
		}
	default:
		panic(unsupported(fmt.Sprintf("append of %T", more)))
	}
	if len(add) == 0 {
		return s
	}
	ln := ex.concInt(s.Len, "append length")
	cp := ex.concInt(s.Cap, "append capacity")
	if s.Arr != nil && ln+len(add) <= cp {
		off := ex.concInt(s.Off, "append offset")
		arr := s.Arr.Val.(ArrayV)
		if s.Arr.Frozen {
			ex.noteFrozenWrite(&Pointer{Obj: s.Arr})
		}
		s.Arr.UF = ""
		for i, v := range add {
			arr[off+ln+i] = copyValue(v)
		}
		return &SliceV{Arr: s.Arr, Off: s.Off, Len: ex.i64(int64(ln + len(add))), Cap: s.Cap, Elem: s.Elem}
	}
	// grow: new backing array (capacity: doubled, like the runtime for small slices)
	ncap := cp * 2
	if ncap < ln+len(add) {
		ncap = ln + len(add)
	}
	narr := make(ArrayV, ncap)
	if ln > 0 {
		off := ex.concInt(s.Off, "append offset")
		old := s.Arr.Val.(ArrayV)
		for i := 0; i < ln; i++ {
			narr[i] = copyValue(old[off+i])
		}
	}
	for i, v := range add {
		narr[ln+i] = copyValue(v)
	}
	for i := ln + len(add); i < ncap; i++ {
		narr[i] = ex.zero(s.Elem)
	}
	o := ex.newObject(nil, narr, "append")
	return &SliceV{Arr: o, Off: ex.i64(0), Len: ex.i64(int64(ln + len(add))), Cap: ex.i64(int64(ncap)), Elem: s.Elem}
}

func (ex *Exec) copyOp(dst *SliceV, src Value) Value {
	var sv []Value
	switch m := src.(type) {
	case *SliceV:
		n := ex.concInt(m.Len, "copy source length")
		if n > 0 {
			off := ex.concInt(m.Off, "copy source offset")
			sv = append(sv, m.Arr.Val.(ArrayV)[off:off+n]...)
		}
	case *StringV:
		for _, b := range ex.strBytes(m) {
			sv = append(sv, b)
		}
	}
	dn := ex.concInt(dst.Len, "copy destination length")
	n := len(sv)
	if dn < n {
		n = dn
	}
	if n > 0 {
		off := ex.concInt(dst.Off, "copy destination offset")
		arr := dst.Arr.Val.(ArrayV)
		if dst.Arr.Frozen {
			ex.noteFrozenWrite(&Pointer{Obj: dst.Arr})
		}
		dst.Arr.UF = ""
		tmp := make([]Value, n)
		for i := 0; i < n; i++ {
			tmp[i] = copyValue(sv[i])
		}
		for i := 0; i < n; i++ {
			arr[off+i] = tmp[i]
		}
	}
	return ex.i64(int64(n))
}

// ---------- lock-discipline watch (sequential harnesses) ----------

type lockWatch struct {
	mutex  *Pointer
	exempt map[int]bool // field indexes that are immutable after construction / not guarded
	name   string
	deep   []string // package paths: objects of named types from these packages that are reachable from the watched object are guarded by the same mutex
}

// watchDeep extends a deep watch to obj (and, transitively, to what it points to) when obj's type
// comes from one of the watch's packages.
func (ex *Exec) watchDeep(w *lockWatch, obj *Object) {
	if obj == nil || len(w.deep) == 0 {
		return
	}
	if _, ok := ex.watchLock[obj]; ok {
		return
	}
	named, ok := obj.Typ.(*types.Named)
	if !ok || named.Obj().Pkg() == nil {
		return
	}
	in := false
	for _, p := range w.deep {
		if named.Obj().Pkg().Path() == p {
			in = true
		}
	}
	if !in {
		return
	}
	ex.watchLock[obj] = &lockWatch{mutex: w.mutex, exempt: map[int]bool{}, name: typeStr(obj.Typ), deep: w.deep}
	ex.watchDeepValue(w, obj.Val)
}

func (ex *Exec) watchDeepValue(w *lockWatch, v Value) {
	switch x := v.(type) {
	case *Pointer:
		if x != nil && x.Obj != nil {
			ex.watchDeep(w, x.Obj)
		}
	case StructV:
		for _, f := range x {
			ex.watchDeepValue(w, f)
		}
	case ArrayV:
		for _, f := range x {
			ex.watchDeepValue(w, f)
		}
	}
}

// checkDiscipline: an access to a watched object's field must happen while the object's mutex is
// held (write mode for stores, any mode for loads).
func (ex *Exec) checkDiscipline(w *lockWatch, p *Pointer, write bool) {
	if len(p.Path) > 0 && w.exempt[p.Path[0].Idx] {
		return
	}
	if len(p.Path) == 0 && len(w.deep) == 0 {
		return
	}
	st := ex.lockState(w.mutex)
	ok := st["w"] > 0 || (!write && st["r"] > 0)
	if !ok {
		kind := "read"
		if write {
			kind = "write"
		}
		ex.res.Events = append(ex.res.Events, fmt.Sprintf("unlocked %s of %s %s%s", kind, w.name, pathKey(p.Path), ex.where()))
		n, _ := ex.ghost["unlockedAccesses"].(*Term)
		c := int64(0)
		if n != nil {
			c = n.SInt()
		}
		ex.ghost["unlockedAccesses"] = ex.i64(c + 1)
	}
}
