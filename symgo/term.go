package main

// Hash-consed SMT terms (Bool and fixed-width bit-vectors, plus uninterpreted
// function applications) with constant folding.  Go integers are encoded with
// their real width, so arithmetic wraps exactly as in Go.

import (
	"fmt"
	"math/bits"
	"sort"
	"strconv"
	"strings"
)

type Op uint8

const (
	OpConst Op = iota
	OpVar
	OpNot
	OpAnd
	OpOr
	OpIte
	OpEq
	OpAdd
	OpSub
	OpMul
	OpUDiv
	OpURem
	OpSDiv
	OpSRem
	OpBAnd
	OpBOr
	OpBXor
	OpShl
	OpLshr
	OpAshr
	OpBNot
	OpNeg
	OpUlt
	OpUle
	OpSlt
	OpSle
	OpExtract
	OpConcat
	OpZExt
	OpSExt
	OpApp
)

var opNames = map[Op]string{
	OpNot: "not", OpAnd: "and", OpOr: "or", OpIte: "ite", OpEq: "=",
	OpAdd: "bvadd", OpSub: "bvsub", OpMul: "bvmul", OpUDiv: "bvudiv", OpURem: "bvurem",
	OpSDiv: "bvsdiv", OpSRem: "bvsrem", OpBAnd: "bvand", OpBOr: "bvor", OpBXor: "bvxor",
	OpShl: "bvshl", OpLshr: "bvlshr", OpAshr: "bvashr", OpBNot: "bvnot", OpNeg: "bvneg",
	OpUlt: "bvult", OpUle: "bvule", OpSlt: "bvslt", OpSle: "bvsle", OpConcat: "concat",
}

// Term: W == 0 means Bool, otherwise a bit-vector of width W (1..64).
type Term struct {
	Op   Op
	W    int
	Args []*Term
	Val  uint64 // OpConst (for Bool: 0/1)
	Name string // OpVar, OpApp
	Hi   int    // OpExtract hi / ext amount
	Lo   int
	ID   int
}

type TB struct {
	tab   map[string]*Term
	next  int
	True  *Term
	False *Term
	// uninterpreted function signatures: name -> (arg widths, result width)
	UF map[string][]int
}

func NewTB() *TB {
	tb := &TB{tab: map[string]*Term{}, UF: map[string][]int{}}
	tb.True = tb.mk(&Term{Op: OpConst, W: 0, Val: 1})
	tb.False = tb.mk(&Term{Op: OpConst, W: 0, Val: 0})
	return tb
}

func (tb *TB) mk(t *Term) *Term {
	var sb strings.Builder
	sb.WriteByte(byte(t.Op) + 'A')
	sb.WriteString(strconv.Itoa(t.W))
	switch t.Op {
	case OpConst:
		sb.WriteByte(':')
		sb.WriteString(strconv.FormatUint(t.Val, 16))
	case OpVar, OpApp:
		sb.WriteByte(':')
		sb.WriteString(t.Name)
	case OpExtract, OpZExt, OpSExt:
		sb.WriteByte(':')
		sb.WriteString(strconv.Itoa(t.Hi))
		sb.WriteByte(',')
		sb.WriteString(strconv.Itoa(t.Lo))
	}
	for _, a := range t.Args {
		sb.WriteByte(' ')
		sb.WriteString(strconv.Itoa(a.ID))
	}
	k := sb.String()
	if e, ok := tb.tab[k]; ok {
		return e
	}
	tb.next++
	t.ID = tb.next
	tb.tab[k] = t
	return t
}

func mask(w int) uint64 {
	if w >= 64 {
		return ^uint64(0)
	}
	return (uint64(1) << uint(w)) - 1
}

func (t *Term) IsConst() bool { return t.Op == OpConst }
func (t *Term) IsTrue() bool  { return t.Op == OpConst && t.W == 0 && t.Val == 1 }
func (t *Term) IsFalse() bool { return t.Op == OpConst && t.W == 0 && t.Val == 0 }

// SInt returns the constant as a sign-extended int64.
func (t *Term) SInt() int64 {
	if t.W >= 64 || t.W == 0 {
		return int64(t.Val)
	}
	if t.Val&(uint64(1)<<uint(t.W-1)) != 0 {
		return int64(t.Val | ^mask(t.W))
	}
	return int64(t.Val)
}

func (tb *TB) Bool(b bool) *Term {
	if b {
		return tb.True
	}
	return tb.False
}

func (tb *TB) BV(w int, v uint64) *Term {
	return tb.mk(&Term{Op: OpConst, W: w, Val: v & mask(w)})
}

func (tb *TB) Var(name string, w int) *Term {
	return tb.mk(&Term{Op: OpVar, W: w, Name: name})
}

func (tb *TB) App(name string, w int, args ...*Term) *Term {
	sig := []int{}
	for _, a := range args {
		sig = append(sig, a.W)
	}
	sig = append(sig, w)
	tb.UF[name] = sig
	return tb.mk(&Term{Op: OpApp, W: w, Name: name, Args: args})
}

func (tb *TB) Not(a *Term) *Term {
	if a.W != 0 {
		panic("Not on non-bool")
	}
	if a.IsConst() {
		return tb.Bool(a.Val == 0)
	}
	if a.Op == OpNot {
		return a.Args[0]
	}
	return tb.mk(&Term{Op: OpNot, Args: []*Term{a}})
}

func (tb *TB) And(as ...*Term) *Term {
	var out []*Term
	seen := map[int]bool{}
	for _, a := range as {
		if a.W != 0 {
			panic("And on non-bool")
		}
		if a.IsFalse() {
			return tb.False
		}
		if a.IsTrue() || seen[a.ID] {
			continue
		}
		if a.Op == OpAnd {
			for _, b := range a.Args {
				if !seen[b.ID] {
					seen[b.ID] = true
					out = append(out, b)
				}
			}
			continue
		}
		seen[a.ID] = true
		out = append(out, a)
	}
	for _, a := range out {
		if a.Op == OpNot && seen[a.Args[0].ID] {
			return tb.False
		}
	}
	if len(out) == 0 {
		return tb.True
	}
	if len(out) == 1 {
		return out[0]
	}
	sort.Slice(out, func(i, j int) bool { return out[i].ID < out[j].ID })
	return tb.mk(&Term{Op: OpAnd, Args: out})
}

func (tb *TB) Or(as ...*Term) *Term {
	var out []*Term
	seen := map[int]bool{}
	for _, a := range as {
		if a.W != 0 {
			panic("Or on non-bool")
		}
		if a.IsTrue() {
			return tb.True
		}
		if a.IsFalse() || seen[a.ID] {
			continue
		}
		if a.Op == OpOr {
			for _, b := range a.Args {
				if !seen[b.ID] {
					seen[b.ID] = true
					out = append(out, b)
				}
			}
			continue
		}
		seen[a.ID] = true
		out = append(out, a)
	}
	for _, a := range out {
		if a.Op == OpNot && seen[a.Args[0].ID] {
			return tb.True
		}
	}
	if len(out) == 0 {
		return tb.False
	}
	if len(out) == 1 {
		return out[0]
	}
	sort.Slice(out, func(i, j int) bool { return out[i].ID < out[j].ID })
	return tb.mk(&Term{Op: OpOr, Args: out})
}

func (tb *TB) Implies(a, b *Term) *Term { return tb.Or(tb.Not(a), b) }

func (tb *TB) Ite(c, a, b *Term) *Term {
	if c.IsTrue() {
		return a
	}
	if c.IsFalse() {
		return b
	}
	if a == b {
		return a
	}
	if a.W != b.W {
		panic(fmt.Sprintf("Ite width mismatch %d %d", a.W, b.W))
	}
	if c.Op == OpNot {
		return tb.Ite(c.Args[0], b, a)
	}
	if a.W == 0 {
		if a.IsTrue() && b.IsFalse() {
			return c
		}
		if a.IsFalse() && b.IsTrue() {
			return tb.Not(c)
		}
		if a.IsTrue() {
			return tb.Or(c, b)
		}
		if a.IsFalse() {
			return tb.And(tb.Not(c), b)
		}
		if b.IsTrue() {
			return tb.Or(tb.Not(c), a)
		}
		if b.IsFalse() {
			return tb.And(c, a)
		}
	}
	return tb.mk(&Term{Op: OpIte, W: a.W, Args: []*Term{c, a, b}})
}

func (tb *TB) Eq(a, b *Term) *Term {
	if a.W != b.W {
		panic(fmt.Sprintf("Eq width mismatch %d %d", a.W, b.W))
	}
	if a == b {
		return tb.True
	}
	if a.IsConst() && b.IsConst() {
		return tb.Bool(a.Val == b.Val)
	}
	if a.W == 0 {
		if a.IsConst() {
			a, b = b, a
		}
		if b.IsTrue() {
			return a
		}
		if b.IsFalse() {
			return tb.Not(a)
		}
	}
	if a.ID > b.ID {
		a, b = b, a
	}
	// (ite c k1 k2) == k  with constants
	if b.IsConst() && a.Op == OpIte && a.Args[1].IsConst() && a.Args[2].IsConst() {
		return tb.Ite(a.Args[0], tb.Eq(a.Args[1], b), tb.Eq(a.Args[2], b))
	}
	if a.IsConst() && b.Op == OpIte && b.Args[1].IsConst() && b.Args[2].IsConst() {
		return tb.Ite(b.Args[0], tb.Eq(b.Args[1], a), tb.Eq(b.Args[2], a))
	}
	return tb.mk(&Term{Op: OpEq, Args: []*Term{a, b}})
}

// Mention returns a valid formula that mentions t (so that its variables are declared to the solver).
func (tb *TB) Mention(t *Term) *Term {
	if t.W == 0 {
		return tb.mk(&Term{Op: OpOr, Args: []*Term{t, tb.mk(&Term{Op: OpNot, Args: []*Term{t}})}})
	}
	return tb.mk(&Term{Op: OpEq, Args: []*Term{t, t}})
}

func (tb *TB) Ne(a, b *Term) *Term { return tb.Not(tb.Eq(a, b)) }

func sext64(v uint64, w int) int64 {
	if w >= 64 {
		return int64(v)
	}
	if v&(uint64(1)<<uint(w-1)) != 0 {
		return int64(v | ^mask(w))
	}
	return int64(v)
}

func (tb *TB) Bin(op Op, a, b *Term) *Term {
	if a.W != b.W || a.W == 0 {
		panic(fmt.Sprintf("Bin %v width mismatch %d %d", opNames[op], a.W, b.W))
	}
	w := a.W
	if a.IsConst() && b.IsConst() {
		x, y := a.Val, b.Val
		var r uint64
		switch op {
		case OpAdd:
			r = x + y
		case OpSub:
			r = x - y
		case OpMul:
			r = x * y
		case OpUDiv:
			if y == 0 {
				r = mask(w)
			} else {
				r = x / y
			}
		case OpURem:
			if y == 0 {
				r = x
			} else {
				r = x % y
			}
		case OpSDiv:
			sx, sy := sext64(x, w), sext64(y, w)
			if sy == 0 {
				if sx < 0 {
					r = 1
				} else {
					r = mask(w)
				}
			} else if sy == -1 {
				r = uint64(-sx)
			} else {
				r = uint64(sx / sy)
			}
		case OpSRem:
			sx, sy := sext64(x, w), sext64(y, w)
			if sy == 0 {
				r = x
			} else if sy == -1 {
				r = 0
			} else {
				r = uint64(sx % sy)
			}
		case OpBAnd:
			r = x & y
		case OpBOr:
			r = x | y
		case OpBXor:
			r = x ^ y
		case OpShl:
			if y >= uint64(w) {
				r = 0
			} else {
				r = x << y
			}
		case OpLshr:
			if y >= uint64(w) {
				r = 0
			} else {
				r = x >> y
			}
		case OpAshr:
			sx := sext64(x, w)
			if y >= uint64(w) {
				if sx < 0 {
					r = mask(w)
				} else {
					r = 0
				}
			} else {
				r = uint64(sx >> y)
			}
		default:
			panic("Bin op")
		}
		return tb.BV(w, r)
	}
	switch op {
	case OpAdd:
		if a.IsConst() && a.Val == 0 {
			return b
		}
		if b.IsConst() && b.Val == 0 {
			return a
		}
		if a.IsConst() {
			a, b = b, a
		}
		// (x + c1) + c2
		if b.IsConst() && a.Op == OpAdd && a.Args[1].IsConst() {
			return tb.Bin(OpAdd, a.Args[0], tb.BV(w, a.Args[1].Val+b.Val))
		}
	case OpSub:
		if b.IsConst() && b.Val == 0 {
			return a
		}
		if a == b {
			return tb.BV(w, 0)
		}
		if b.IsConst() {
			return tb.Bin(OpAdd, a, tb.BV(w, -b.Val))
		}
	case OpMul:
		if (a.IsConst() && a.Val == 0) || (b.IsConst() && b.Val == 0) {
			return tb.BV(w, 0)
		}
		if a.IsConst() && a.Val == 1 {
			return b
		}
		if b.IsConst() && b.Val == 1 {
			return a
		}
	case OpBAnd:
		if a == b {
			return a
		}
		if (a.IsConst() && a.Val == 0) || (b.IsConst() && b.Val == 0) {
			return tb.BV(w, 0)
		}
		if a.IsConst() && a.Val == mask(w) {
			return b
		}
		if b.IsConst() && b.Val == mask(w) {
			return a
		}
	case OpBOr, OpBXor:
		if a.IsConst() && a.Val == 0 {
			return b
		}
		if b.IsConst() && b.Val == 0 {
			return a
		}
	case OpShl, OpLshr, OpAshr:
		if b.IsConst() && b.Val == 0 {
			return a
		}
	}
	switch op {
	case OpAdd, OpMul, OpBAnd, OpBOr, OpBXor:
		// canonical argument order for commutative operators: constants last, otherwise by id
		if a.IsConst() || (!b.IsConst() && a.ID > b.ID) {
			a, b = b, a
		}
	}
	return tb.mk(&Term{Op: op, W: w, Args: []*Term{a, b}})
}

func (tb *TB) Add(a, b *Term) *Term { return tb.Bin(OpAdd, a, b) }
func (tb *TB) Sub(a, b *Term) *Term { return tb.Bin(OpSub, a, b) }

func (tb *TB) Un(op Op, a *Term) *Term {
	if a.IsConst() {
		switch op {
		case OpBNot:
			return tb.BV(a.W, ^a.Val)
		case OpNeg:
			return tb.BV(a.W, -a.Val)
		}
	}
	return tb.mk(&Term{Op: op, W: a.W, Args: []*Term{a}})
}

func (tb *TB) Cmp(op Op, a, b *Term) *Term {
	if a.W != b.W || a.W == 0 {
		panic(fmt.Sprintf("Cmp width mismatch %d %d", a.W, b.W))
	}
	if a.IsConst() && b.IsConst() {
		switch op {
		case OpUlt:
			return tb.Bool(a.Val < b.Val)
		case OpUle:
			return tb.Bool(a.Val <= b.Val)
		case OpSlt:
			return tb.Bool(sext64(a.Val, a.W) < sext64(b.Val, b.W))
		case OpSle:
			return tb.Bool(sext64(a.Val, a.W) <= sext64(b.Val, b.W))
		}
	}
	if a == b {
		return tb.Bool(op == OpUle || op == OpSle)
	}
	return tb.mk(&Term{Op: op, Args: []*Term{a, b}})
}

func (tb *TB) Extract(a *Term, hi, lo int) *Term {
	if lo == 0 && hi == a.W-1 {
		return a
	}
	if a.IsConst() {
		return tb.BV(hi-lo+1, a.Val>>uint(lo))
	}
	if a.Op == OpZExt && hi < a.Args[0].W {
		return tb.Extract(a.Args[0], hi, lo)
	}
	if a.Op == OpSExt && hi < a.Args[0].W {
		return tb.Extract(a.Args[0], hi, lo)
	}
	if a.Op == OpConcat {
		lw := a.Args[1].W
		if hi < lw {
			return tb.Extract(a.Args[1], hi, lo)
		}
		if lo >= lw {
			return tb.Extract(a.Args[0], hi-lw, lo-lw)
		}
	}
	if a.Op == OpExtract {
		return tb.Extract(a.Args[0], hi+a.Lo, lo+a.Lo)
	}
	return tb.mk(&Term{Op: OpExtract, W: hi - lo + 1, Args: []*Term{a}, Hi: hi, Lo: lo})
}

func (tb *TB) Concat(a, b *Term) *Term {
	if a.IsConst() && b.IsConst() && a.W+b.W <= 64 {
		return tb.BV(a.W+b.W, a.Val<<uint(b.W)|b.Val)
	}
	// concat(extract(x,hi,m+1), extract(x,m,lo)) = extract(x,hi,lo)
	if a.Op == OpExtract && b.Op == OpExtract && a.Args[0] == b.Args[0] && a.Lo == b.Hi+1 {
		return tb.Extract(a.Args[0], a.Hi, b.Lo)
	}
	return tb.mk(&Term{Op: OpConcat, W: a.W + b.W, Args: []*Term{a, b}})
}

func (tb *TB) ZExt(a *Term, w int) *Term {
	if w == a.W {
		return a
	}
	if w < a.W {
		return tb.Extract(a, w-1, 0)
	}
	if a.IsConst() {
		return tb.BV(w, a.Val)
	}
	if a.Op == OpZExt {
		return tb.ZExt(a.Args[0], w)
	}
	return tb.mk(&Term{Op: OpZExt, W: w, Args: []*Term{a}, Hi: w - a.W})
}

func (tb *TB) SExt(a *Term, w int) *Term {
	if w == a.W {
		return a
	}
	if w < a.W {
		return tb.Extract(a, w-1, 0)
	}
	if a.IsConst() {
		return tb.BV(w, uint64(sext64(a.Val, a.W)))
	}
	return tb.mk(&Term{Op: OpSExt, W: w, Args: []*Term{a}, Hi: w - a.W})
}

// ---- SMT-LIB printing ----

func sortStr(w int) string {
	if w == 0 {
		return "Bool"
	}
	return "(_ BitVec " + strconv.Itoa(w) + ")"
}

func constStr(t *Term) string {
	if t.W == 0 {
		if t.Val == 1 {
			return "true"
		}
		return "false"
	}
	if t.W%4 == 0 {
		return fmt.Sprintf("#x%0*x", t.W/4, t.Val)
	}
	return fmt.Sprintf("#b%0*b", t.W, t.Val)
}

func smtName(n string) string {
	ok := true
	for _, c := range n {
		if !(c >= 'a' && c <= 'z' || c >= 'A' && c <= 'Z' || c >= '0' && c <= '9' || c == '_' || c == '.' || c == '!' || c == '$') {
			ok = false
		}
	}
	if ok {
		return n
	}
	return "|" + strings.ReplaceAll(n, "|", "_") + "|"
}

// Printer emits declarations and one define-fun per shared internal node.
type Printer struct {
	sb       *strings.Builder
	declared map[int]bool // vars / UFs declared
	defined  map[int]string
	ufDecl   map[string]bool
	tb       *TB
	Vars     []*Term
	roots    []*Term
	parent   *Printer
}

func NewPrinter(tb *TB) *Printer {
	return &Printer{sb: &strings.Builder{}, declared: map[int]bool{}, defined: map[int]string{}, ufDecl: map[string]bool{}, tb: tb}
}

// ref returns the textual reference for t, emitting definitions as needed.
func (p *Printer) lookup(id int) (string, bool) {
	for q := p; q != nil; q = q.parent {
		if s, ok := q.defined[id]; ok {
			return s, true
		}
	}
	return "", false
}

func (p *Printer) ufDeclared(name string) bool {
	for q := p; q != nil; q = q.parent {
		if q.ufDecl[name] {
			return true
		}
	}
	return false
}

// Child returns a printer for a nested solver scope: it sees the parent's definitions.
func (p *Printer) Child() *Printer {
	c := NewPrinter(p.tb)
	c.parent = p
	return c
}

// AllVars lists the variables declared in this printer and its ancestors.
func (p *Printer) AllVars() []*Term {
	var out []*Term
	for q := p; q != nil; q = q.parent {
		out = append(out, q.Vars...)
	}
	return out
}

func (p *Printer) ref(t *Term) string {
	if s, ok := p.lookup(t.ID); ok {
		return s
	}
	// iterative post-order to avoid deep recursion
	type fr struct {
		t *Term
		i int
	}
	stack := []fr{{t, 0}}
	for len(stack) > 0 {
		f := &stack[len(stack)-1]
		if _, ok := p.lookup(f.t.ID); ok {
			stack = stack[:len(stack)-1]
			continue
		}
		if f.i < len(f.t.Args) {
			a := f.t.Args[f.i]
			f.i++
			if _, ok := p.lookup(a.ID); !ok {
				stack = append(stack, fr{a, 0})
			}
			continue
		}
		p.emit(f.t)
		stack = stack[:len(stack)-1]
	}
	r, _ := p.lookup(t.ID)
	return r
}

func (p *Printer) emit(t *Term) {
	switch t.Op {
	case OpConst:
		p.defined[t.ID] = constStr(t)
		return
	case OpVar:
		n := smtName(t.Name)
		p.sb.WriteString("(declare-const " + n + " " + sortStr(t.W) + ")\n")
		p.defined[t.ID] = n
		p.Vars = append(p.Vars, t)
		return
	}
	var e strings.Builder
	args := make([]string, len(t.Args))
	for i, a := range t.Args {
		args[i], _ = p.lookup(a.ID)
	}
	switch t.Op {
	case OpExtract:
		fmt.Fprintf(&e, "((_ extract %d %d) %s)", t.Hi, t.Lo, args[0])
	case OpZExt:
		fmt.Fprintf(&e, "((_ zero_extend %d) %s)", t.Hi, args[0])
	case OpSExt:
		fmt.Fprintf(&e, "((_ sign_extend %d) %s)", t.Hi, args[0])
	case OpApp:
		n := smtName(t.Name)
		if !p.ufDeclared(t.Name) {
			p.ufDecl[t.Name] = true
			sig := p.tb.UF[t.Name]
			var ss []string
			for _, w := range sig[:len(sig)-1] {
				ss = append(ss, sortStr(w))
			}
			p.sb.WriteString("(declare-fun " + n + " (" + strings.Join(ss, " ") + ") " + sortStr(sig[len(sig)-1]) + ")\n")
		}
		if len(args) == 0 {
			e.WriteString(n)
		} else {
			e.WriteString("(" + n + " " + strings.Join(args, " ") + ")")
		}
	default:
		e.WriteString("(" + opNames[t.Op] + " " + strings.Join(args, " ") + ")")
	}
	n := "n" + strconv.Itoa(t.ID)
	p.sb.WriteString("(define-fun " + n + " () " + sortStr(t.W) + " " + e.String() + ")\n")
	p.defined[t.ID] = n
}

func (p *Printer) Assert(t *Term) {
	p.roots = append(p.roots, t)
	r := p.ref(t)
	p.sb.WriteString("(assert " + r + ")\n")
}

func (p *Printer) String() string { return p.sb.String() }

// Eval evaluates t under a model of variable values (missing vars default to 0).
func (tb *TB) Eval(t *Term, model map[string]uint64, memo map[int]uint64) uint64 {
	if v, ok := memo[t.ID]; ok {
		return v
	}
	var r uint64
	a := func(i int) uint64 { return tb.Eval(t.Args[i], model, memo) }
	w := t.W
	switch t.Op {
	case OpConst:
		r = t.Val
	case OpVar:
		r = model[t.Name] & maskB(t.W)
	case OpNot:
		r = 1 - a(0)
	case OpAnd:
		r = 1
		for i := range t.Args {
			if a(i) == 0 {
				r = 0
				break
			}
		}
	case OpOr:
		r = 0
		for i := range t.Args {
			if a(i) == 1 {
				r = 1
				break
			}
		}
	case OpIte:
		if a(0) == 1 {
			r = a(1)
		} else {
			r = a(2)
		}
	case OpEq:
		if a(0) == a(1) {
			r = 1
		}
	case OpAdd, OpSub, OpMul, OpUDiv, OpURem, OpSDiv, OpSRem, OpBAnd, OpBOr, OpBXor, OpShl, OpLshr, OpAshr:
		r = tb.Bin(t.Op, tb.BV(w, a(0)), tb.BV(w, a(1))).Val
	case OpBNot:
		r = ^a(0) & mask(w)
	case OpNeg:
		r = -a(0) & mask(w)
	case OpUlt, OpUle, OpSlt, OpSle:
		aw := t.Args[0].W
		r = tb.Cmp(t.Op, tb.BV(aw, a(0)), tb.BV(aw, a(1))).Val
	case OpExtract:
		r = (a(0) >> uint(t.Lo)) & mask(t.Hi-t.Lo+1)
	case OpConcat:
		r = a(0)<<uint(t.Args[1].W) | a(1)
	case OpZExt:
		r = a(0)
	case OpSExt:
		r = uint64(sext64(a(0), t.Args[0].W)) & mask(w)
	case OpApp:
		// uninterpreted: look up "name(args)" in the model, default 0
		key := t.Name + "("
		for i := range t.Args {
			key += strconv.FormatUint(a(i), 10) + ","
		}
		key += ")"
		r = model[key] & maskB(w)
	}
	memo[t.ID] = r
	return r
}

func maskB(w int) uint64 {
	if w == 0 {
		return 1
	}
	return mask(w)
}

var _ = bits.Len64
