package main

import (
	"os/signal"
	"sync"
	"syscall"
	"encoding/json"
	"fmt"
	"os"
	"runtime"
	"sort"
	"strings"
)

// scratch directories of the running process, removed also when the process is told to stop
var scratchMu sync.Mutex
var scratchDirs = map[string]bool{}

func registerScratch(d string) {
	scratchMu.Lock()
	scratchDirs[d] = true
	scratchMu.Unlock()
}

func cleanScratchOnSignal() {
	ch := make(chan os.Signal, 1)
	signal.Notify(ch, syscall.SIGTERM, syscall.SIGINT, syscall.SIGHUP)
	go func() {
		<-ch
		scratchMu.Lock()
		for d := range scratchDirs {
			os.RemoveAll(d)
		}
		scratchMu.Unlock()
		os.Exit(3)
	}()
}

func main() {
	cleanScratchOnSignal()
	if len(os.Args) < 2 {
		fmt.Fprintln(os.Stderr, "usage: symgo run <pkg> <Harness> | check <ID> [--tier quick|thorough]")
		os.Exit(2)
	}
	switch os.Args[1] {
	case "check":
		tier := "quick"
		if t := os.Getenv("VERIF_TIER"); t != "" {
			tier = t
		}
		for i := 3; i < len(os.Args); i++ {
			if os.Args[i] == "--tier" && i+1 < len(os.Args) {
				tier = os.Args[i+1]
			}
		}
		os.Exit(runCheck(os.Args[2], tier))
	case "bmc":
		w, err := LoadWorld("/repo", "/verif/harness")
		if err != nil {
			fmt.Fprintln(os.Stderr, "load error:", err)
			os.Exit(2)
		}
		bs := BMCSpec{Name: os.Args[3], Pkg: os.Args[2], Fn: os.Args[3], Init: []string{"util", "store", "compress", "cache"}}
		if len(os.Args) > 4 {
			bs.Init = strings.Split(os.Args[4], ",")
		}
		br := w.RunBMC("DBG", bs, "quick", map[string]KnownFinding{})
		b, _ := json.MarshalIndent(br, "", " ")
		fmt.Println(string(b))
	case "run":
		w, err := LoadWorld("/repo", "/verif/harness")
		if err != nil {
			fmt.Fprintln(os.Stderr, "load error:", err)
			os.Exit(2)
		}
		fmt.Println("loaded in", w.LoadDur, "hooks:", len(w.hooks))
		pool := NewSolverPool("z3", 60000)
		defer pool.CloseAll()
		opts := &RunOpts{InitPkgs: []string{"util", "store", "compress", "cache"}}
		if len(os.Args) > 4 {
			opts.InitPkgs = strings.Split(os.Args[4], ",")
		}
		hr, err := w.RunHarness(os.Args[2], os.Args[3], opts, pool, runtime.NumCPU(), 100000)
		printHR(hr)
		if err != nil {
			fmt.Println("ERROR:", err)
			os.Exit(2)
		}
	}
}

func printHR(hr *HarnessResult) {
	if hr == nil {
		return
	}
	fmt.Printf("%s: paths=%d steps=%d dur=%v ends=%v\n", hr.Name, hr.Paths, hr.Steps, hr.Dur, hr.EndCounts)
	var names []string
	for n := range hr.Asserts {
		names = append(names, n)
	}
	sort.Strings(names)
	for _, n := range names {
		a := hr.Asserts[n]
		fmt.Printf("  assert %-40s proved=%d trivial=%d violated=%d unknown=%d\n", n, a.Proved, a.Trivial, a.Violated, a.Unknown)
		for i, m := range a.Models {
			fmt.Printf("     model: %v %s\n", m, a.Details[i])
		}
		if a.Violated == 0 {
			for _, d := range a.Details {
				fmt.Printf("     detail: %s\n", d)
			}
		}
	}
	fmt.Printf("  reached=%v notes=%v\n", hr.Reached, hr.Notes)
	for e, c := range hr.Events {
		fmt.Printf("  event x%d: %s\n", c, e)
	}
	for i, u := range hr.Unsup {
		if i < 5 {
			fmt.Println("  UNSUPPORTED:", u)
		}
	}
}
