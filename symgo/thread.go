package main

// Thread mode of the executor: the body of one harness thread is executed symbolically;
// accesses to shared (setup-allocated) mutable cells, lock operations and channel
// operations are recorded as events; values read from shared cells are fresh variables.
// The result of exploring all paths of a thread is a tree of events (bmc_tree.go).

import (
	"fmt"
	"go/token"
	"go/types"
	"strings"
)

type Cell struct {
	Key  string
	W    int    // bit width (0 = Bool)
	Kind string // int | bool | ptr | chan | seqlen | seqelem | lockw | lockr
	Init *Term
	Desc string
}

type Event struct {
	Kind   string // read write lock unlock rlock runlock send recv assert assume reach atomic-begin atomic-end newchan
	Cell   *Cell
	Var    *Term // read: the fresh variable
	Val    *Term // write: value; send: payload (nil for struct{})
	Mutex  string
	Ch     *Term
	Vals   []*Term // send: flattened payload
	Vars   []*Term // recv: fresh variables receiving the payload
	Name   string
	Cond   *Term
	Pos    token.Pos
	Where  string
	Atomic bool // inside a verifAtomic block / hook body
}

type traceItem struct {
	ev   *Event
	dec  bool
	cond *Term // decision: the condition added to the path condition
	val  int
}

type threadMode struct {
	tid        int
	name       string
	mutable    map[string]bool // cells that some thread writes (fixpoint input)
	written    map[string]bool // cells this path wrote (fixpoint output)
	touched    map[string]*Cell
	trace      []traceItem
	setupObjs  int // number of objects allocated by the setup phase
	atomic     int
	chanSeq    int
	parks      int
	varSeq     int
	active     bool
	maxSeq     int
	heldLocks  []string
	setupPC    []*Term
	posCount   map[string]int
	held       map[string]string            // mutex -> w/r currently held by this thread
	cache      map[string]Value             // values of cells read/written under a lock that excludes writers
	writeLock  map[string]map[string]bool   // per cell: mutexes held (write mode) at every write, from the previous pass (nil: first pass)
	mutableKnown bool // false in the first fixpoint pass
	localCells map[string]*Term // value of a shared cell as last written by this thread within pass 1 (approximation only)
}

var bmcMaxSeq = 4

// unwinding bounds of a thread's event tree: active frames of one function, blocking receives per path
var bmcMaxRecursion = 2
var bmcMaxParks = 2

func (ex *Exec) inThread() bool { return ex.tm != nil && ex.tm.active }

// tmVar names a variable after the program position (call stack + instruction) and the number of
// times that position has been reached on this path, not after the path itself: paths that reach the
// same code in the same way share variable names, which lets identical subtrees be merged.
func (ex *Exec) tmVar(kind string, w int) *Term {
	key := ex.tmPosKey() + "/" + kind
	n := ex.tm.posCount[key]
	ex.tm.posCount[key] = n + 1
	return ex.tb.Var(fmt.Sprintf("%s.%s#%d", ex.tm.name, key, n), w)
}

func (ex *Exec) tmPosKey() string {
	var sb strings.Builder
	depth := 0
	for fr := ex.curFrame; fr != nil && depth < 12; fr = fr.caller {
		sb.WriteString(fr.fn.Name())
		if fr.callPos.IsValid() {
			fmt.Fprintf(&sb, ":%d", int(fr.callPos))
		}
		sb.WriteByte('<')
		depth++
	}
	fmt.Fprintf(&sb, "@%d", int(ex.curPos))
	return sb.String()
}

// tmPathKey identifies the current position in the thread's tree: the decisions taken so far.
func (ex *Exec) tmPathKey() string {
	var sb strings.Builder
	for _, it := range ex.tm.trace {
		if it.dec {
			fmt.Fprintf(&sb, "%d.", it.val)
		}
	}
	return sb.String()
}

func (ex *Exec) tmEvent(ev *Event) {
	ev.Atomic = ex.tm.atomic > 0
	if ex.curFrame != nil {
		ev.Where = ex.curFrame.fn.Name()
	}
	ex.tm.trace = append(ex.tm.trace, traceItem{ev: ev})
}

func (ex *Exec) tmDecision(cond *Term, val int) {
	if ex.inThread() {
		ex.tm.trace = append(ex.tm.trace, traceItem{dec: true, cond: cond, val: val})
	}
}

// ---- cells ----

func pathKey(p []PathEl) string {
	var sb strings.Builder
	for _, e := range p {
		fmt.Fprintf(&sb, ".%d", e.Idx)
	}
	return sb.String()
}

func (ex *Exec) isSharedObj(o *Object) bool {
	if o == nil || o.Site == "conststr" {
		return false
	}
	return o.ID <= ex.tm.setupObjs || strings.HasPrefix(o.Site, "global:")
}

func objKey(o *Object) string {
	if strings.HasPrefix(o.Site, "global:") {
		return "g." + o.Name
	}
	return fmt.Sprintf("o%d", o.ID)
}

func (ex *Exec) ptrCode(p *Pointer) *Term {
	if p.Code != nil {
		return p.Code
	}
	if p.IsNil() {
		return ex.tb.BV(16, 0)
	}
	if len(p.Path) != 0 {
		panic(unsupported("pointer to a field stored in a shared cell"))
	}
	if p.Obj.ID <= ex.tm.setupObjs {
		return ex.tb.BV(16, uint64(p.Obj.ID))
	}
	return ex.tb.BV(16, uint64(4096*(ex.tm.tid+1)+(p.Obj.ID-ex.tm.setupObjs)))
}

func (ex *Exec) chanCode(c *ChanV) *Term {
	if c.Sym != nil {
		return c.Sym
	}
	if c.C == nil {
		return ex.tb.BV(8, 0)
	}
	return ex.tb.BV(8, uint64(c.C.ID))
}

func (ex *Exec) cellFor(o *Object, path []PathEl, sub string, w int, kind string, init *Term) *Cell {
	key := objKey(o) + pathKey(path) + sub
	if c, ok := ex.tm.touched[key]; ok {
		return c
	}
	c := &Cell{Key: key, W: w, Kind: kind, Init: init, Desc: o.Site + pathKey(path) + sub}
	ex.tm.touched[key] = c
	return c
}

// tmLoad: load from a shared object in thread mode. cur is the concrete (setup) value.
func (ex *Exec) tmLoad(p *Pointer, cur Value, pos token.Pos) Value {
	o := p.Obj
	ckey := objKey(o) + pathKey(p.Path)
	if ex.tmCanCache(ckey) {
		if v, ok := ex.tm.cache[ckey]; ok {
			return v
		}
	}
	v := ex.tmLoad1(p, cur, pos)
	if ex.tmCanCache(ckey) {
		ex.tm.cache[ckey] = v
	}
	return v
}

func (ex *Exec) tmLoad1(p *Pointer, cur Value, pos token.Pos) Value {
	o := p.Obj
	switch v := cur.(type) {
	case *Term:
		kind := "int"
		if v.W == 0 {
			kind = "bool"
		}
		c := ex.cellFor(o, p.Path, "", v.W, kind, v)
		if !ex.tm.mutable[c.Key] {
			return v
		}
		r := ex.tmVar("r", v.W)
		ex.tmEvent(&Event{Kind: "read", Cell: c, Var: r, Pos: pos})
		return r
	case *Pointer:
		c := ex.cellFor(o, p.Path, "", 16, "ptr", nil)
		if !ex.tm.mutable[c.Key] {
			return v
		}
		c.Init = ex.ptrCode(v)
		r := ex.tmVar("p", 16)
		ex.tmEvent(&Event{Kind: "read", Cell: c, Var: r, Pos: pos})
		// a pointer read from shared memory is symbolic; it can be compared and passed on
		return &Pointer{Code: r}
	case *ChanV:
		c := ex.cellFor(o, p.Path, "", 8, "chan", nil)
		if !ex.tm.mutable[c.Key] {
			return v
		}
		c.Init = ex.chanCode(v)
		r := ex.tmVar("c", 8)
		ex.tmEvent(&Event{Kind: "read", Cell: c, Var: r, Pos: pos})
		return &ChanV{Sym: r}
	case *SliceV:
		lc := ex.cellFor(o, p.Path, "#len", 8, "seqlen", nil)
		if !ex.tm.mutable[lc.Key] {
			return v
		}
		// bounded sequence by value: len + bmcMaxSeq element cells
		initLen := 0
		var initElems []*Term
		if v.Arr != nil {
			initLen = ex.concInt(v.Len, "shared slice length")
			off := ex.concInt(v.Off, "shared slice offset")
			arr := v.Arr.Val.(ArrayV)
			for i := 0; i < initLen; i++ {
				initElems = append(initElems, ex.encodeScalar(arr[off+i]))
			}
		}
		lc.Init = ex.tb.BV(8, uint64(initLen))
		ln := ex.tmVar("n", 8)
		ex.tmEvent(&Event{Kind: "read", Cell: lc, Var: ln, Pos: pos})
		elemW, elemKind := ex.seqElemKind(v.Elem)
		arr := make(ArrayV, bmcMaxSeq)
		for i := 0; i < bmcMaxSeq; i++ {
			ec := ex.cellFor(o, p.Path, fmt.Sprintf("#e%d", i), elemW, "seqelem", nil)
			if i < len(initElems) {
				ec.Init = initElems[i]
			} else {
				ec.Init = ex.tb.BV(elemW, 0)
			}
			r := ex.tmVar("e", elemW)
			ex.tmEvent(&Event{Kind: "read", Cell: ec, Var: r, Pos: pos})
			arr[i] = ex.decodeScalar(r, elemKind)
		}
		obj := ex.newObject(nil, arr, "sharedseq")
		isNil := ex.tmVar("nil", 0)
		nc := ex.cellFor(o, p.Path, "#nil", 0, "bool", ex.tb.Bool(v.Arr == nil))
		ex.tmEvent(&Event{Kind: "read", Cell: nc, Var: isNil, Pos: pos})
		ln64 := ex.tb.ZExt(ln, 64)
		ex.addPC(ex.tb.Cmp(OpUle, ln, ex.tb.BV(8, uint64(bmcMaxSeq))))
		return &SliceV{Arr: obj, Off: ex.i64(0), Len: ln64, Cap: ex.i64(int64(bmcMaxSeq)), Elem: v.Elem, NilIf: isNil}
	}
	// other kinds of values (maps, interfaces, funcs, structs by value) must be immutable
	key := objKey(o) + pathKey(p.Path)
	if ex.tm.mutable[key] {
		panic(unsupported(fmt.Sprintf("shared mutable cell of type %T (%s)", cur, o.Site)))
	}
	return cur
}

func (ex *Exec) seqElemKind(t types.Type) (int, string) {
	switch u := t.Underlying().(type) {
	case *types.Chan:
		return 8, "chan"
	case *types.Pointer:
		return 16, "ptr"
	case *types.Basic:
		if w, _, ok := intWidth(u); ok {
			return w, "int"
		}
	}
	panic(unsupported("shared slice with elements of type " + t.String()))
}

func (ex *Exec) encodeScalar(v Value) *Term {
	switch x := v.(type) {
	case *Term:
		return x
	case *Pointer:
		return ex.ptrCode(x)
	case *ChanV:
		return ex.chanCode(x)
	}
	panic(unsupported(fmt.Sprintf("value of type %T in a shared cell", v)))
}

func (ex *Exec) decodeScalar(t *Term, kind string) Value {
	switch kind {
	case "chan":
		return &ChanV{Sym: t}
	case "ptr":
		return &Pointer{Code: t}
	}
	return t
}

// tmStore: store into a shared object in thread mode.
func (ex *Exec) tmStore(p *Pointer, old Value, v Value, pos token.Pos) {
	o := p.Obj
	ckey := objKey(o) + pathKey(p.Path)
	delete(ex.tm.cache, ckey)
	if ex.tmCanCache(ckey) {
		ex.tm.cache[ckey] = v
	}
	mark := func(c *Cell) { ex.tm.written[c.Key] = true }
	switch nv := v.(type) {
	case *Term:
		kind := "int"
		if nv.W == 0 {
			kind = "bool"
		}
		var init *Term
		if ot, ok := old.(*Term); ok {
			init = ot
		}
		c := ex.cellFor(o, p.Path, "", nv.W, kind, init)
		mark(c)
		ex.tmEvent(&Event{Kind: "write", Cell: c, Val: nv, Pos: pos})
	case *Pointer:
		c := ex.cellFor(o, p.Path, "", 16, "ptr", nil)
		if op, ok := old.(*Pointer); ok && c.Init == nil {
			c.Init = ex.ptrCode(op)
		}
		mark(c)
		ex.tmEvent(&Event{Kind: "write", Cell: c, Val: ex.ptrCode(nv), Pos: pos})
	case *ChanV:
		c := ex.cellFor(o, p.Path, "", 8, "chan", nil)
		mark(c)
		ex.tmEvent(&Event{Kind: "write", Cell: c, Val: ex.chanCode(nv), Pos: pos})
	case *SliceV:
		lc := ex.cellFor(o, p.Path, "#len", 8, "seqlen", nil)
		mark(lc)
		n := 0
		var elems []*Term
		if nv.Arr != nil {
			n = ex.concInt(nv.Len, "shared slice length (store)")
			if n > bmcMaxSeq {
				// unwinding assertion: shown unreachable by the solver, otherwise the bound is too small
				panic(pathEnd{"seq-overflow"})
			}
			off := ex.concInt(nv.Off, "shared slice offset (store)")
			arr := nv.Arr.Val.(ArrayV)
			for i := 0; i < n; i++ {
				elems = append(elems, ex.encodeScalar(arr[off+i]))
			}
		}
		if os, ok := old.(*SliceV); ok && lc.Init == nil {
			il := 0
			if os.Arr != nil {
				il = ex.concInt(os.Len, "shared slice length")
			}
			lc.Init = ex.tb.BV(8, uint64(il))
		}
		ex.tmEvent(&Event{Kind: "write", Cell: lc, Val: ex.tb.BV(8, uint64(n)), Pos: pos})
		elemW, _ := ex.seqElemKind(nv.Elem)
		for i := 0; i < bmcMaxSeq; i++ {
			ec := ex.cellFor(o, p.Path, fmt.Sprintf("#e%d", i), elemW, "seqelem", ex.tb.BV(elemW, 0))
			mark(ec)
			val := ex.tb.BV(elemW, 0)
			if i < n {
				val = elems[i]
			}
			ex.tmEvent(&Event{Kind: "write", Cell: ec, Val: val, Pos: pos})
		}
		nc := ex.cellFor(o, p.Path, "#nil", 0, "bool", ex.tb.True)
		if os, ok := old.(*SliceV); ok {
			nc.Init = ex.tb.Bool(os.Arr == nil)
		}
		mark(nc)
		isNil := ex.tb.Bool(nv.Arr == nil)
		if nv.NilIf != nil {
			isNil = nv.NilIf
		}
		ex.tmEvent(&Event{Kind: "write", Cell: nc, Val: isNil, Pos: pos})
	default:
		panic(unsupported(fmt.Sprintf("store of %T into a shared object (%s)", v, o.Site)))
	}
}

// ---- locks ----

func (ex *Exec) tmLock(p *Pointer, op string) {
	if p.IsNil() {
		ex.goPanicf("nil pointer dereference (mutex)")
	}
	if !ex.isSharedObj(p.Obj) {
		panic(unsupported("lock operation on a thread-local mutex"))
	}
	key := objKey(p.Obj) + pathKey(p.Path)
	kind := map[string]string{"Lock": "lock", "Unlock": "unlock", "RLock": "rlock", "RUnlock": "runlock"}[op]
	switch kind {
	case "lock":
		ex.tm.held[key] = "w"
	case "rlock":
		ex.tm.held[key] = "r"
	default:
		delete(ex.tm.held, key)
	}
	ex.tm.cache = map[string]Value{}
	ex.tmEvent(&Event{Kind: kind, Mutex: key, Pos: ex.curPos})
}

// ---- channels ----

func (ex *Exec) tmMakeChan(n int) *ChanV {
	if n != 0 {
		panic(unsupported("buffered channel in thread mode"))
	}
	ex.tm.chanSeq++
	id := 16*(ex.tm.tid+1) + ex.tm.chanSeq
	if ex.tm.chanSeq > 15 {
		panic(unsupported("more than 15 channels created by one thread"))
	}
	return &ChanV{C: &ChanObj{ID: id}}
}

type bmcThread struct {
	name string
	body *FuncV
}

// canCache: a value of the cell may be reused while this thread continuously holds a mutex that
// every writer of the cell holds in write mode (no other thread can write in between).
func (ex *Exec) tmCanCache(key string) bool {
	tm := ex.tm
	if len(tm.held) == 0 || tm.atomic > 0 {
		return false
	}
	if tm.writeLock == nil {
		return true // first pass: optimistic
	}
	wl, ok := tm.writeLock[key]
	if !ok {
		return true // nobody writes it outside atomic stubs
	}
	for m := range tm.held {
		if wl[m] {
			return true
		}
	}
	return false
}

// flatten lists the scalar leaves of a channel payload.
func (ex *Exec) flatten(v Value, out *[]*Term) {
	switch x := v.(type) {
	case *Term:
		*out = append(*out, x)
	case *Pointer:
		*out = append(*out, ex.ptrCode(x))
	case *ChanV:
		*out = append(*out, ex.chanCode(x))
	case StructV:
		for _, f := range x {
			ex.flatten(f, out)
		}
	case ArrayV:
		for _, f := range x {
			ex.flatten(f, out)
		}
	default:
		panic(unsupported(fmt.Sprintf("channel payload containing %T", v)))
	}
}

// freshOfType builds a value of type t whose scalar leaves are fresh variables (a received payload).
func (ex *Exec) freshOfType(t types.Type, vars *[]*Term) Value {
	switch u := t.Underlying().(type) {
	case *types.Basic:
		w, _, ok := intWidth(t)
		if !ok {
			panic(unsupported("channel payload of type " + t.String()))
		}
		v := ex.tmVar("rv", w)
		*vars = append(*vars, v)
		return v
	case *types.Pointer:
		v := ex.tmVar("rp", 16)
		*vars = append(*vars, v)
		return &Pointer{Code: v}
	case *types.Chan:
		v := ex.tmVar("rc", 8)
		*vars = append(*vars, v)
		return &ChanV{Sym: v}
	case *types.Struct:
		s := make(StructV, u.NumFields())
		for i := range s {
			s[i] = ex.freshOfType(u.Field(i).Type(), vars)
		}
		return s
	}
	panic(unsupported("channel payload of type " + t.String()))
}
