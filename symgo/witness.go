package main

// Translator validation by path witnesses: for a sample of the feasible paths the engine explored
// (paths on which every assertion was proved), the concrete input vector the solver gave for the
// path condition is run through the natively compiled harness (same overlay as a counterexample
// replay).  The native run must take the same path: the same reachability labels in the same order,
// every assumption holding, no assertion failing, no panic.  A divergence means the encoding (or a
// stub) does not describe the real code on that input.

import (
	"encoding/json"
	"fmt"
	"os"
	"os/exec"
	"path/filepath"
	"sort"
	"strings"
	"time"
)

type Witness struct {
	Harness HarnessSpec
	Prefix  []int
	Inputs  map[string]uint64
	Reached []string
}

type WitnessResult struct {
	Tried, Followed int
	Diverged        []string
	Dur             time.Duration
}

// writeNativeOverlay writes the harness copies, the native runtime and the hooked sources into dir
// and returns the overlay map (virtual path in /repo -> real file).
func (w *World) writeNativeOverlay(dir string) (map[string]string, error) {
	overlay := map[string]string{}
	ov, _ := harnessOverlay(w.Harness)
	nativeTmpl, err := os.ReadFile(filepath.Join(w.Harness, "rt", "verif_rt_native.go.tmpl"))
	if err != nil {
		return nil, err
	}
	for pkg, files := range ov {
		pd := filepath.Join(dir, pkg)
		os.MkdirAll(pd, 0o755)
		for _, f := range files {
			if _, dropped := w.ld.Dropped[filepath.Join(w.Repo, pkg, "zz_"+filepath.Base(f))]; dropped {
				continue // does not compile against the current tree (see Loaded.Dropped)
			}
			src, _ := os.ReadFile(f)
			s := strings.Replace(string(src), "//go:build verif_harness", "// (harness)", 1)
			dst := filepath.Join(pd, filepath.Base(f))
			os.WriteFile(dst, []byte(s), 0o644)
			overlay[filepath.Join(w.Repo, pkg, "zz_"+filepath.Base(f))] = dst
		}
		rt := strings.Replace(string(nativeTmpl), "package PKG", "package "+filepath.Base(pkg), 1)
		dst := filepath.Join(pd, "verif_rt_native.go")
		os.WriteFile(dst, []byte(rt), 0o644)
		overlay[filepath.Join(w.Repo, pkg, "zz_verif_rt_native.go")] = dst
	}
	for file, sites := range w.hookSites() {
		src, err := rewriteHooked(file, sites)
		if err != nil {
			return nil, fmt.Errorf("rewrite %s: %v", file, err)
		}
		rel, _ := filepath.Rel(w.Repo, file)
		dst := filepath.Join(dir, filepath.Dir(rel), "hooked_"+filepath.Base(file))
		os.MkdirAll(filepath.Dir(dst), 0o755)
		os.WriteFile(dst, src, 0o644)
		overlay[file] = dst
	}
	return overlay, nil
}

// ValidateWitnesses compiles one test binary per package and runs every witness through it.
func (w *World) ValidateWitnesses(id string, wits []Witness) *WitnessResult {
	t0 := time.Now()
	res := &WitnessResult{}
	if len(wits) == 0 {
		return res
	}
	dir, err := os.MkdirTemp("", "symgo-wit")
	if err != nil {
		return res
	}
	registerScratch(dir)
	defer os.RemoveAll(dir)
	keep := filepath.Join(verifDir(), "replays", id, "witness-divergences")
	os.RemoveAll(keep)
	overlay, err := w.writeNativeOverlay(dir)
	if err != nil {
		res.Diverged = append(res.Diverged, "overlay: "+err.Error())
		return res
	}
	byPkg := map[string][]Witness{}
	for _, wt := range wits {
		byPkg[wt.Harness.Pkg] = append(byPkg[wt.Harness.Pkg], wt)
	}
	pkgs := make([]string, 0, len(byPkg))
	for p := range byPkg {
		pkgs = append(pkgs, p)
	}
	sort.Strings(pkgs)
	env := append(os.Environ(), "GOFLAGS=-mod=mod", "GOPROXY=off", "GOSUMDB=off", "GOTOOLCHAIN=local")
	for _, pkg := range pkgs {
		fns := map[string]bool{}
		for _, wt := range byPkg[pkg] {
			fns[wt.Harness.Fn] = true
		}
		var names []string
		for f := range fns {
			names = append(names, f)
		}
		sort.Strings(names)
		var sb strings.Builder
		fmt.Fprintf(&sb, "package %s\n\nimport (\n\t\"os\"\n\t\"testing\"\n)\n\nvar verifWitnessHarnesses = map[string]func(){\n", filepath.Base(pkg))
		for _, f := range names {
			fmt.Fprintf(&sb, "\t%q: %s,\n", f, f)
		}
		sb.WriteString("}\n\nfunc TestVerifWitness(t *testing.T) {\n\th := verifWitnessHarnesses[os.Getenv(\"VERIF_HARNESS\")]\n\tif h == nil {\n\t\tt.Fatal(\"unknown harness\")\n\t}\n\tverifReplayMain(\"\", h)\n}\n")
		tdst := filepath.Join(dir, pkg, "verif_witness_test.go")
		os.WriteFile(tdst, []byte(sb.String()), 0o644)
		ovp := map[string]string{}
		for k, v := range overlay {
			ovp[k] = v
		}
		ovp[filepath.Join(w.Repo, pkg, "zz_verif_witness_test.go")] = tdst
		ob, _ := json.Marshal(map[string]interface{}{"Replace": ovp})
		ovFile := filepath.Join(dir, "overlay_"+sanitize(pkg)+".json")
		os.WriteFile(ovFile, ob, 0o644)
		bin := filepath.Join(dir, sanitize(pkg)+".test")
		build := exec.Command("go", "test", "-c", "-vet=off", "-overlay", ovFile, "-o", bin, "./"+pkg+"/")
		build.Dir = w.Repo
		build.Env = env
		if out, err := build.CombinedOutput(); err != nil {
			res.Diverged = append(res.Diverged, fmt.Sprintf("%s: native build failed: %s", pkg, firstLines(string(out), 3)))
			res.Tried += len(byPkg[pkg])
			continue
		}
		for i, wt := range byPkg[pkg] {
			res.Tried++
			mf := filepath.Join(dir, fmt.Sprintf("model_%s_%d.json", sanitize(pkg), i))
			mb, _ := json.Marshal(wt.Inputs)
			os.WriteFile(mf, mb, 0o644)
			run := exec.Command("timeout", "60", bin, "-test.run", "^TestVerifWitness$", "-test.v")
			run.Dir = filepath.Join(w.Repo, pkg)
			run.Env = append(env, "VERIF_MODEL="+mf, "VERIF_HARNESS="+wt.Harness.Fn)
			outB, _ := run.CombinedOutput()
			out := string(outB)
			var reached []string
			problem := ""
			for _, l := range strings.Split(out, "\n") {
				switch {
				case strings.HasPrefix(l, "REPLAY-REACH "):
					reached = append(reached, strings.TrimPrefix(l, "REPLAY-REACH "))
				case strings.HasPrefix(l, "REPLAY-ASSERT-FAILED"), strings.HasPrefix(l, "REPLAY-PANIC"), strings.HasPrefix(l, "REPLAY-ASSUME-FAILED"):
					if problem == "" {
						problem = l
					}
				}
			}
			if problem == "" && !strings.Contains(out, "REPLAY-PATH-OK") {
				problem = "native run did not finish: " + firstLines(out, 2)
			}
			if problem == "" && strings.Join(reached, ",") != strings.Join(wt.Reached, ",") {
				problem = fmt.Sprintf("reach labels differ: engine %v, native %v", wt.Reached, reached)
			}
			if problem == "" {
				res.Followed++
				continue
			}
			os.MkdirAll(keep, 0o755)
			base := filepath.Join(keep, fmt.Sprintf("%s-%d", wt.Harness.Fn, i))
			os.WriteFile(base+".model.json", mustIndent(wt.Inputs), 0o644)
			os.WriteFile(base+".output.txt", []byte(fmt.Sprintf("decisions=%v\nengine reach=%v\n\n%s", wt.Prefix, wt.Reached, out)), 0o644)
			res.Diverged = append(res.Diverged, fmt.Sprintf("%s.%s decisions=%v: %s (%s.*)", pkg, wt.Harness.Fn, wt.Prefix, problem, base))
		}
	}
	res.Dur = time.Since(t0)
	return res
}

func mustIndent(v interface{}) []byte {
	b, _ := json.MarshalIndent(v, "", " ")
	return b
}

func firstLines(s string, n int) string {
	ls := strings.Split(strings.TrimSpace(s), "\n")
	if len(ls) > n {
		ls = ls[:n]
	}
	return strings.Join(ls, " | ")
}
