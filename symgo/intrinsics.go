package main

// Engine intrinsics: the nondet/assume/assert runtime used by harnesses and the
// models of library functions that are not executed from SSA (stub catalogue in
// DESIGN.md §4).

import (
	"errors"
	"fmt"
	"os"
	"time"
	"go/types"
	"net/textproto"
	"sort"
	"strconv"
	"strings"

	"golang.org/x/tools/go/ssa"
)

type intrFn func(ex *Exec, fn *ssa.Function, args []Value, fr *Frame) Value

var intrTable map[string]intrFn

func init() {
	intrTable = map[string]intrFn{
		"(*sync.Mutex).Lock":      func(ex *Exec, fn *ssa.Function, a []Value, fr *Frame) Value { return ex.lockOp(a[0], "Lock") },
		"(*sync.Mutex).Unlock":    func(ex *Exec, fn *ssa.Function, a []Value, fr *Frame) Value { return ex.lockOp(a[0], "Unlock") },
		"(*sync.RWMutex).Lock":    func(ex *Exec, fn *ssa.Function, a []Value, fr *Frame) Value { return ex.lockOp(a[0], "Lock") },
		"(*sync.RWMutex).Unlock":  func(ex *Exec, fn *ssa.Function, a []Value, fr *Frame) Value { return ex.lockOp(a[0], "Unlock") },
		"(*sync.RWMutex).RLock":   func(ex *Exec, fn *ssa.Function, a []Value, fr *Frame) Value { return ex.lockOp(a[0], "RLock") },
		"(*sync.RWMutex).RUnlock": func(ex *Exec, fn *ssa.Function, a []Value, fr *Frame) Value { return ex.lockOp(a[0], "RUnlock") },
		"(*sync.Map).Load":        intrSyncMapLoad,
		"(*sync.Map).Store":       intrSyncMapStore,
		"(*sync.Map).Delete":      intrSyncMapDelete,
		"(*sync.Map).Range":       intrSyncMapRange,
		"(*sync.Map).LoadAndDelete": func(ex *Exec, fn *ssa.Function, a []Value, fr *Frame) Value {
			m := ex.syncMap(a[0])
			for i, e := range m.Entries {
				if ex.branch(ex.valEq(e.Key, a[1])) {
					m.Entries = append(append([]*MapEntry{}, m.Entries[:i]...), m.Entries[i+1:]...)
					ex.afterSyncMapWrite(fr)
					return TupleV{e.Val, ex.tb.True}
				}
			}
			return TupleV{&IfaceV{}, ex.tb.False}
		},
		"(*sync.Map).LoadOrStore": func(ex *Exec, fn *ssa.Function, a []Value, fr *Frame) Value {
			m := ex.syncMap(a[0])
			if e := ex.mapFind(m, a[1]); e != nil {
				return TupleV{e.Val, ex.tb.True}
			}
			m.Entries = append(m.Entries, &MapEntry{Key: a[1], Val: a[2]})
			ex.afterSyncMapWrite(fr)
			return TupleV{a[2], ex.tb.False}
		},
		// sync.Pool: Get hands out the most recently Put object (the reuse that makes aliasing visible) or,
		// as the solver chooses, a fresh one from New; an empty pool calls New (nil without New).
		"(*sync.Pool).Put": func(ex *Exec, fn *ssa.Function, a []Value, fr *Frame) Value {
			p := a[0].(*Pointer)
			key := fmt.Sprintf("pool:%d:%v", p.Obj.ID, p.Path)
			if iv, ok := a[1].(*IfaceV); ok && iv.Typ == nil {
				return nil
			}
			ex.pools[key] = append(ex.pools[key], a[1])
			return nil
		},
		"(*sync.Pool).Get": func(ex *Exec, fn *ssa.Function, a []Value, fr *Frame) Value {
			p := a[0].(*Pointer)
			key := fmt.Sprintf("pool:%d:%v", p.Obj.ID, p.Path)
			if lst := ex.pools[key]; len(lst) > 0 {
				reuse := ex.freshVar("pool.reuse", 1)
				if ex.branch(ex.tb.Eq(reuse, ex.tb.BV(1, 1))) {
					v := lst[len(lst)-1]
					ex.pools[key] = lst[:len(lst)-1]
					return v
				}
			}
			st := fn.Signature.Recv().Type().(*types.Pointer).Elem().Underlying().(*types.Struct)
			for i := 0; i < st.NumFields(); i++ {
				if st.Field(i).Name() == "New" {
					q := &Pointer{Obj: p.Obj, Path: append(append([]PathEl{}, p.Path...), PathEl{Idx: i})}
					if nf, ok := ex.load(q).(*FuncV); ok && (nf.Fn != nil || nf.Intr != "") {
						return ex.invoke(nf, nil, fr)
					}
				}
			}
			return &IfaceV{}
		},
		"(*sync.Once).Do": func(ex *Exec, fn *ssa.Function, a []Value, fr *Frame) Value {
			p := a[0].(*Pointer)
			key := fmt.Sprintf("once:%d:%v", p.Obj.ID, p.Path)
			if _, done := ex.ghost[key]; !done {
				ex.ghost[key] = ex.tb.True
				ex.invoke(a[1].(*FuncV), nil, fr)
			}
			return nil
		},
		"sync/atomic.LoadInt32":  func(ex *Exec, fn *ssa.Function, a []Value, fr *Frame) Value { return ex.load(a[0].(*Pointer)) },
		"sync/atomic.LoadInt64":  func(ex *Exec, fn *ssa.Function, a []Value, fr *Frame) Value { return ex.load(a[0].(*Pointer)) },
		"sync/atomic.LoadUint32": func(ex *Exec, fn *ssa.Function, a []Value, fr *Frame) Value { return ex.load(a[0].(*Pointer)) },
		"sync/atomic.LoadUint64": func(ex *Exec, fn *ssa.Function, a []Value, fr *Frame) Value { return ex.load(a[0].(*Pointer)) },
		"sync/atomic.StoreInt32": func(ex *Exec, fn *ssa.Function, a []Value, fr *Frame) Value { ex.store(a[0].(*Pointer), a[1]); return nil },
		"sync/atomic.StoreInt64": func(ex *Exec, fn *ssa.Function, a []Value, fr *Frame) Value { ex.store(a[0].(*Pointer), a[1]); return nil },
		"sync/atomic.StoreUint32": func(ex *Exec, fn *ssa.Function, a []Value, fr *Frame) Value { ex.store(a[0].(*Pointer), a[1]); return nil },
		"sync/atomic.AddInt32": func(ex *Exec, fn *ssa.Function, a []Value, fr *Frame) Value {
			n := ex.tb.Add(ex.load(a[0].(*Pointer)).(*Term), a[1].(*Term))
			ex.store(a[0].(*Pointer), n)
			return n
		},
		"sync/atomic.AddUint32": func(ex *Exec, fn *ssa.Function, a []Value, fr *Frame) Value {
			n := ex.tb.Add(ex.load(a[0].(*Pointer)).(*Term), a[1].(*Term))
			ex.store(a[0].(*Pointer), n)
			return n
		},
		"sync/atomic.AddInt64": func(ex *Exec, fn *ssa.Function, a []Value, fr *Frame) Value {
			n := ex.tb.Add(ex.load(a[0].(*Pointer)).(*Term), a[1].(*Term))
			ex.store(a[0].(*Pointer), n)
			return n
		},
		// fmt.Sprintf / fmt.Errorf on concrete arguments (strings, integers, bools, errors made here):
		// evaluated by the real fmt; symbolic arguments are unsupported
		"fmt.Sprintf": func(ex *Exec, fn *ssa.Function, a []Value, fr *Frame) Value {
			return ex.constStr(ex.concreteSprintf(a))
		},
		"fmt.Errorf": func(ex *Exec, fn *ssa.Function, a []Value, fr *Frame) Value {
			return ex.newError(ex.concreteSprintf(a))
		},
		"fmt.Sprint": func(ex *Exec, fn *ssa.Function, a []Value, fr *Frame) Value {
			return ex.constStr(fmt.Sprint(ex.concreteArgs(a[0])...))
		},
		// strings.Builder over the struct {addr, buf}: buf is the slice model
		"(*strings.Builder).WriteString": func(ex *Exec, fn *ssa.Function, a []Value, fr *Frame) Value {
			q := ex.builderBuf(a[0])
			nb := ex.appendOp(ex.load(q).(*SliceV), a[1])
			ex.store(q, nb)
			return TupleV{a[1].(*StringV).Len, &IfaceV{}}
		},
		"(*strings.Builder).Write": func(ex *Exec, fn *ssa.Function, a []Value, fr *Frame) Value {
			q := ex.builderBuf(a[0])
			nb := ex.appendOp(ex.load(q).(*SliceV), a[1])
			ex.store(q, nb)
			return TupleV{a[1].(*SliceV).Len, &IfaceV{}}
		},
		"(*strings.Builder).WriteByte": func(ex *Exec, fn *ssa.Function, a []Value, fr *Frame) Value {
			q := ex.builderBuf(a[0])
			one := ex.sliceFromTerms([]*Term{a[1].(*Term)}, types.Typ[types.Uint8])
			ex.store(q, ex.appendOp(ex.load(q).(*SliceV), one))
			return &IfaceV{}
		},
		"(*strings.Builder).Len": func(ex *Exec, fn *ssa.Function, a []Value, fr *Frame) Value {
			sv := ex.load(ex.builderBuf(a[0])).(*SliceV)
			if sv.Arr == nil {
				return ex.i64(0)
			}
			return sv.Len
		},
		"(*strings.Builder).Grow":  func(ex *Exec, fn *ssa.Function, a []Value, fr *Frame) Value { return nil },
		"(*strings.Builder).Reset": func(ex *Exec, fn *ssa.Function, a []Value, fr *Frame) Value {
			q := ex.builderBuf(a[0])
			ex.store(q, &SliceV{Off: ex.i64(0), Len: ex.i64(0), Cap: ex.i64(0), Elem: types.Typ[types.Uint8]})
			return nil
		},
		"(*strings.Builder).String": func(ex *Exec, fn *ssa.Function, a []Value, fr *Frame) Value {
			sv := ex.load(ex.builderBuf(a[0])).(*SliceV)
			if sv.Arr == nil {
				return ex.constStr("")
			}
			// (a copy: later writes to the builder must not show through the string)
			ts := ex.sliceTerms(sv)
			cp := ex.sliceFromTerms(ts, types.Typ[types.Uint8])
			return &StringV{Arr: cp.Arr, Off: cp.Off, Len: cp.Len}
		},
		"errors.New": func(ex *Exec, fn *ssa.Function, a []Value, fr *Frame) Value {
			s, _ := ex.goString(a[0].(*StringV))
			return ex.newError(s)
		},
		"(*errors.errorString).Error": func(ex *Exec, fn *ssa.Function, a []Value, fr *Frame) Value {
			p := a[0].(*Pointer)
			return ex.constStr(p.Obj.Name)
		},
		"sort.Slice":        intrSortSlice,
		"sort.SliceStable":  intrSortSlice, // (the insertion sort of the model is stable)
		"sort.Strings": func(ex *Exec, fn *ssa.Function, a []Value, fr *Frame) Value {
			s := a[0].(*SliceV)
			n := ex.concInt(s.Len, "sort.Strings length")
			if n < 2 {
				return nil
			}
			off := ex.concInt(s.Off, "sort.Strings offset")
			arr := s.Arr.Val.(ArrayV)
			gs := make([]string, n)
			for i := 0; i < n; i++ {
				g, ok := ex.goString(arr[off+i].(*StringV))
				if !ok {
					panic(unsupported("sort.Strings of symbolic strings"))
				}
				gs[i] = g
			}
			sort.Strings(gs)
			for i := 0; i < n; i++ {
				arr[off+i] = ex.constStr(gs[i])
			}
			return nil
		},
		"strings.SplitN": func(ex *Exec, fn *ssa.Function, a []Value, fr *Frame) Value {
			x, ok1 := ex.goString(a[0].(*StringV))
			y, ok2 := ex.goString(a[1].(*StringV))
			n := a[2].(*Term)
			if !ok1 || !ok2 || !n.IsConst() {
				panic(unsupported("strings.SplitN on symbolic input"))
			}
			var out []*StringV
			for _, p := range strings.SplitN(x, y, int(n.SInt())) {
				out = append(out, ex.constStr(p))
			}
			return ex.makeStringSlice(out)
		},
		"strings.Fields": func(ex *Exec, fn *ssa.Function, a []Value, fr *Frame) Value {
			x, ok := ex.goString(a[0].(*StringV))
			if !ok {
				panic(unsupported("strings.Fields on symbolic input"))
			}
			var out []*StringV
			for _, p := range strings.Fields(x) {
				out = append(out, ex.constStr(p))
			}
			return ex.makeStringSlice(out)
		},
		"errors.Is": func(ex *Exec, fn *ssa.Function, a []Value, fr *Frame) Value {
			// identity only: the error values the harnesses see are not wrapped
			return ex.valEq(a[0], a[1])
		},
		"bytes.HasPrefix": func(ex *Exec, fn *ssa.Function, a []Value, fr *Frame) Value {
			return ex.matchAt(ex.sliceTerms(a[0].(*SliceV)), 0, ex.sliceTerms(a[1].(*SliceV)))
		},
		"bytes.Equal": func(ex *Exec, fn *ssa.Function, a []Value, fr *Frame) Value {
			x, y := ex.sliceTerms(a[0].(*SliceV)), ex.sliceTerms(a[1].(*SliceV))
			if len(x) != len(y) {
				return ex.tb.False
			}
			return ex.matchAt(x, 0, y)
		},
		"strings.Join":      intrStringsJoin,
		"strings.Contains":  intrStringsContains,
		"strings.HasPrefix": intrStringsHasPrefix,
		"strings.ToLower":   intrStringsToLower,
		"strings.Split":     intrStringsSplit,
		"strings.TrimSpace": intrStringsTrimSpace,
		"net/url.Parse": func(ex *Exec, fn *ssa.Function, a []Value, fr *Frame) Value {
			// an opaque *url.URL per call, labelled with the (concrete) address
			g, ok := ex.goString(a[0].(*StringV))
			if !ok {
				panic(unsupported("url.Parse of a symbolic string"))
			}
			pt := fn.Signature.Results().At(0).Type().(*types.Pointer)
			o := ex.newObject(pt.Elem(), ex.zero(pt.Elem()), "url:"+g)
			o.Name = g
			return TupleV{&Pointer{Obj: o}, &IfaceV{}}
		},
		"time.ParseDuration": func(ex *Exec, fn *ssa.Function, a []Value, fr *Frame) Value {
			g, ok := ex.goString(a[0].(*StringV))
			if !ok {
				panic(unsupported("time.ParseDuration of a symbolic string"))
			}
			d, err := time.ParseDuration(g)
			if err != nil {
				return TupleV{ex.i64(0), ex.libError("time.ParseDuration")}
			}
			return TupleV{ex.i64(int64(d)), &IfaceV{}}
		},
		// humanize.ParseBytes on concrete strings: "" is an error, plain digits are bytes; unit suffixes
		// are not needed by the harnesses (unsupported)
		"github.com/dustin/go-humanize.ParseBytes": func(ex *Exec, fn *ssa.Function, a []Value, fr *Frame) Value {
			g, ok := ex.goString(a[0].(*StringV))
			if !ok {
				panic(unsupported("humanize.ParseBytes of a symbolic string"))
			}
			if g == "" {
				return TupleV{ex.tb.BV(64, 0), ex.libError("humanize.ParseBytes")}
			}
			n, err := strconv.ParseUint(g, 10, 64)
			if err != nil {
				panic(unsupported("humanize.ParseBytes(" + g + ")"))
			}
			return TupleV{ex.tb.BV(64, n), &IfaceV{}}
		},
		"(time.Duration).Seconds": func(ex *Exec, fn *ssa.Function, a []Value, fr *Frame) Value {
			t := a[0].(*Term)
			if !t.IsConst() {
				panic(unsupported("Duration.Seconds of a symbolic duration"))
			}
			return &Opaque{Kind: "float", Data: float64(t.SInt()) / 1e9}
		},
		"math/rand.Uint32": func(ex *Exec, fn *ssa.Function, a []Value, fr *Frame) Value { return ex.freshVar("rand.Uint32", 32) },
		"strconv.Atoi":      intrAtoi,
		"strconv.Itoa":      intrItoa,
		// ParseInt(s, 10, 0|64): the same value and nil-ness of the error as Atoi (int is 64 bits here)
		"strconv.ParseInt": func(ex *Exec, fn *ssa.Function, a []Value, fr *Frame) Value {
			base, bits := a[1].(*Term), a[2].(*Term)
			if !base.IsConst() || !bits.IsConst() || base.SInt() != 10 || (bits.SInt() != 0 && bits.SInt() != 64) {
				panic(unsupported("strconv.ParseInt with a base other than 10 or a bit size other than 0/64"))
			}
			return intrAtoi(ex, fn, a[:1], fr)
		},
		"strconv.FormatInt": func(ex *Exec, fn *ssa.Function, a []Value, fr *Frame) Value {
			base := a[1].(*Term)
			if !base.IsConst() {
				panic(unsupported("strconv.FormatInt with a symbolic base"))
			}
			if t := a[0].(*Term); t.IsConst() {
				return ex.constStr(strconv.FormatInt(t.SInt(), int(base.SInt())))
			}
			if base.SInt() != 10 {
				panic(unsupported("strconv.FormatInt of a symbolic value in a base other than 10"))
			}
			return intrItoa(ex, fn, a[:1], fr)
		},
		"strconv.FormatUint": func(ex *Exec, fn *ssa.Function, a []Value, fr *Frame) Value {
			base := a[1].(*Term)
			t := a[0].(*Term)
			if !base.IsConst() || !t.IsConst() {
				panic(unsupported("strconv.FormatUint on symbolic input"))
			}
			return ex.constStr(strconv.FormatUint(t.Val, int(base.SInt())))
		},
		"bytes.Join":        intrBytesJoin,
		"bytes.NewBuffer":   intrBytesNewBuffer,
		"bytes.NewBufferString": func(ex *Exec, fn *ssa.Function, a []Value, fr *Frame) Value {
			return intrBytesNewBuffer(ex, fn, []Value{ex.sliceFromTerms(ex.strBytes(a[0].(*StringV)), types.Typ[types.Uint8])}, fr)
		},
		"(*bytes.Buffer).Next":  intrBufferNext,
		"(*bytes.Buffer).Bytes": intrBufferBytes,
		"(*bytes.Buffer).Len":   intrBufferLen,
		"(*bytes.Buffer).Write": func(ex *Exec, fn *ssa.Function, a []Value, fr *Frame) Value {
			o, buf, _ := ex.bufParts(a[0])
			nb := ex.appendOp(buf, a[1]).(*SliceV)
			o.Val.(StructV)[0] = nb
			return TupleV{a[1].(*SliceV).Len, &IfaceV{}}
		},
		"encoding/binary.Read":  intrBinaryRead,
		"(*bytes.Buffer).Read": intrBufferRead,
		"(*bytes.Buffer).WriteString": func(ex *Exec, fn *ssa.Function, a []Value, fr *Frame) Value {
			o, buf, _ := ex.bufParts(a[0])
			o.Val.(StructV)[0] = ex.appendOp(buf, a[1]).(*SliceV)
			return TupleV{a[1].(*StringV).Len, &IfaceV{}}
		},
		"(*bytes.Buffer).WriteByte": func(ex *Exec, fn *ssa.Function, a []Value, fr *Frame) Value {
			o, buf, _ := ex.bufParts(a[0])
			one := ex.sliceFromTerms([]*Term{a[1].(*Term)}, types.Typ[types.Uint8])
			o.Val.(StructV)[0] = ex.appendOp(buf, one).(*SliceV)
			return &IfaceV{}
		},
		"(*bytes.Buffer).Grow": func(ex *Exec, fn *ssa.Function, a []Value, fr *Frame) Value {
			// capacity only: make room so that later writes do not reallocate (len unchanged)
			o, buf, _ := ex.bufParts(a[0])
			n := ex.concInt(a[1].(*Term), "bytes.Buffer.Grow")
			if n < 0 {
				ex.goPanicf("bytes.Buffer.Grow: negative count")
			}
			ln := 0
			if buf.Arr != nil {
				ln = ex.concInt(buf.Len, "buffer length")
			}
			cp := 0
			if buf.Arr != nil {
				cp = ex.concInt(buf.Cap, "buffer capacity")
			}
			if ln+n > cp {
				narr := make(ArrayV, ln+n)
				if ln > 0 {
					off := ex.concInt(buf.Off, "buffer offset")
					copy(narr, buf.Arr.Val.(ArrayV)[off:off+ln])
				}
				for i := ln; i < ln+n; i++ {
					narr[i] = ex.tb.BV(8, 0)
				}
				no := ex.newObject(nil, narr, "bytes.Buffer.Grow")
				o.Val.(StructV)[0] = &SliceV{Arr: no, Off: ex.i64(0), Len: ex.i64(int64(ln)), Cap: ex.i64(int64(ln + n)), Elem: types.Typ[types.Uint8]}
			}
			return nil
		},
		"(*bytes.Buffer).String": func(ex *Exec, fn *ssa.Function, a []Value, fr *Frame) Value {
			b := intrBufferBytes(ex, fn, a, fr).(*SliceV)
			if b.Arr == nil {
				return ex.constStr("")
			}
			cp := ex.sliceFromTerms(ex.sliceTerms(b), types.Typ[types.Uint8])
			return &StringV{Arr: cp.Arr, Off: cp.Off, Len: cp.Len}
		},
		"strings.IndexByte": func(ex *Exec, fn *ssa.Function, a []Value, fr *Frame) Value {
			x, ok := ex.goString(a[0].(*StringV))
			c := a[1].(*Term)
			if !ok || !c.IsConst() {
				panic(unsupported("strings.IndexByte on symbolic input"))
			}
			return ex.i64(int64(strings.IndexByte(x, byte(c.Val))))
		},
		"strings.ContainsRune": func(ex *Exec, fn *ssa.Function, a []Value, fr *Frame) Value {
			x, ok := ex.goString(a[0].(*StringV))
			c := a[1].(*Term)
			if !ok || !c.IsConst() {
				panic(unsupported("strings.ContainsRune on symbolic input"))
			}
			return ex.tb.Bool(strings.ContainsRune(x, rune(c.Val)))
		},
		"io.ReadFull":          intrIOReadFull,
		"(*bytes.Buffer).Reset": func(ex *Exec, fn *ssa.Function, a []Value, fr *Frame) Value {
			// b.buf = b.buf[:0]; b.off = 0   (the backing array is kept: later writes reuse it)
			o, buf, _ := ex.bufParts(a[0])
			sv := o.Val.(StructV)
			if buf.Arr != nil {
				sv[0] = &SliceV{Arr: buf.Arr, Off: buf.Off, Len: ex.i64(0), Cap: buf.Cap, Elem: buf.Elem}
			}
			sv[1] = ex.i64(0)
			return nil
		},
		// a request's context: a live background context (never cancelled, no deadline), implemented by the
		// harness runtime's verifBackgroundCtx so that method calls on it run from SSA
		"(*net/http.Request).Context": func(ex *Exec, fn *ssa.Function, a []Value, fr *Frame) Value {
			for path, tp := range ex.ld.Types {
				if !strings.HasPrefix(path, pikeMod) {
					continue
				}
				if obj := tp.Scope().Lookup("verifBackgroundCtx"); obj != nil {
					return &IfaceV{Typ: obj.Type(), Val: ex.zero(obj.Type())}
				}
			}
			panic(unsupported("(*http.Request).Context: no harness runtime loaded"))
		},
		"net/http.CanonicalHeaderKey":            concStr1(textproto.CanonicalMIMEHeaderKey),
		"net/textproto.CanonicalMIMEHeaderKey":   concStr1(textproto.CanonicalMIMEHeaderKey),
		"strings.TrimRight":  concStr2(strings.TrimRight),
		"strings.TrimLeft":   concStr2(strings.TrimLeft),
		"strings.Trim":       concStr2(strings.Trim),
		"strings.TrimPrefix": concStr2(strings.TrimPrefix),
		"strings.TrimSuffix": concStr2(strings.TrimSuffix),
		"strings.ToUpper":    concStr1(strings.ToUpper),
		"strings.Title":      concStr1(strings.Title),
		"strings.ReplaceAll": func(ex *Exec, fn *ssa.Function, a []Value, fr *Frame) Value {
			x, ok1 := ex.goString(a[0].(*StringV))
			y, ok2 := ex.goString(a[1].(*StringV))
			z, ok3 := ex.goString(a[2].(*StringV))
			if !ok1 || !ok2 || !ok3 {
				panic(unsupported("strings.ReplaceAll on symbolic input"))
			}
			return ex.constStr(strings.ReplaceAll(x, y, z))
		},
		"strings.HasSuffix": concStrBool2(strings.HasSuffix),
		"strings.EqualFold": concStrBool2(strings.EqualFold),
		"strings.Index":     concStrInt2(strings.Index),
		"strings.LastIndex": concStrInt2(strings.LastIndex),
		"strings.Count":     concStrInt2(strings.Count),
		"(encoding/binary.bigEndian).Uint32": func(ex *Exec, fn *ssa.Function, a []Value, fr *Frame) Value { return ex.getUint(a[1].(*SliceV), 4) },
		"(encoding/binary.bigEndian).Uint64": func(ex *Exec, fn *ssa.Function, a []Value, fr *Frame) Value { return ex.getUint(a[1].(*SliceV), 8) },
		"(encoding/binary.bigEndian).PutUint32": func(ex *Exec, fn *ssa.Function, a []Value, fr *Frame) Value { return ex.putUint(a[1].(*SliceV), a[2].(*Term), 4) },
		"(encoding/binary.bigEndian).PutUint64": func(ex *Exec, fn *ssa.Function, a []Value, fr *Frame) Value { return ex.putUint(a[1].(*SliceV), a[2].(*Term), 8) },
		"(net/http.Header).Get":    intrHeaderGet,
		"(net/http.Header).Values": intrHeaderValues,
		"(net/http.Header).Set":    intrHeaderSet,
		"(net/http.Header).Add":    intrHeaderAdd,
		"(net/http.Header).Del":    intrHeaderDel,
		"(net/http.Header).Clone":  intrHeaderClone,
		"encoding/json.Marshal":    intrJSONMarshal,
		"encoding/json.Unmarshal":  intrJSONUnmarshal,
		"regexp.MustCompile":       intrRegexpCompile,
		"regexp.Compile":           intrRegexpCompile,
		"(*regexp.Regexp).MatchString":         intrRegexpMatchString,
		"(*regexp.Regexp).FindStringSubmatch":  intrRegexpFindStringSubmatch,
		"(*regexp.Regexp).FindStringSubmatchIndex": intrRegexpFindStringSubmatchIndex,
		"(*regexp.Regexp).String":              intrRegexpString,
		"github.com/vicanso/pike/log.Default": func(ex *Exec, fn *ssa.Function, a []Value, fr *Frame) Value { return &Pointer{} },
		"github.com/vicanso/pike/cache.MemHash": intrMemHash,
		"github.com/vicanso/pike/cache.MemHashString": func(ex *Exec, fn *ssa.Function, a []Value, fr *Frame) Value {
			s := a[0].(*StringV)
			return ex.memHash(ex.strBytes(s))
		},
	}
}

var noopPrefixes = []string{
	"go.uber.org/zap.", "(*go.uber.org/zap.Logger).", "(*go.uber.org/zap.SugaredLogger).",
	"fmt.Print", "log.Print",
}

func (ex *Exec) hasIntrinsic(name string) bool {
	if _, ok := intrTable[name]; ok {
		return true
	}
	for _, p := range noopPrefixes {
		if strings.HasPrefix(name, p) {
			return true
		}
	}
	return false
}

func (ex *Exec) intrinsic(name string, fn *ssa.Function, args []Value, fr *Frame) Value {
	if f, ok := intrTable[name]; ok {
		return f(ex, fn, args, fr)
	}
	for _, p := range noopPrefixes {
		if strings.HasPrefix(name, p) {
			return ex.zeroResults(fn)
		}
	}
	panic(unsupported("intrinsic " + name))
}

// ---------- errors ----------

func (ex *Exec) errorStringType() types.Type {
	if t, ok := ex.ghostT["errorString"]; ok {
		return t
	}
	// *errors.errorString from export data if present, else a synthetic named type
	if p, ok := ex.ld.imports["errors"]; ok {
		if o := p.Scope().Lookup("errorString"); o != nil {
			t := types.NewPointer(o.Type())
			ex.ghostT["errorString"] = t
			return t
		}
	}
	obj := types.NewTypeName(0, nil, "errorString", nil)
	named := types.NewNamed(obj, types.NewStruct(nil, nil), nil)
	t := types.NewPointer(named)
	ex.ghostT["errorString"] = t
	return t
}

// builderBuf: address of the buf field of a strings.Builder
func (ex *Exec) builderBuf(recv Value) *Pointer {
	p := recv.(*Pointer)
	if p.IsNil() {
		ex.goPanicf("nil *strings.Builder")
	}
	return &Pointer{Obj: p.Obj, Path: append(append([]PathEl{}, p.Path...), PathEl{Idx: 1})}
}

// concreteArgs converts a []interface{} of concrete values to Go values for the real fmt.
func (ex *Exec) concreteArgs(v Value) []interface{} {
	sv, _ := v.(*SliceV)
	if sv == nil || sv.Arr == nil {
		return nil
	}
	n := ex.concInt(sv.Len, "fmt argument count")
	off := ex.concInt(sv.Off, "fmt argument offset")
	arr := sv.Arr.Val.(ArrayV)
	var out []interface{}
	for i := 0; i < n; i++ {
		iv, _ := arr[off+i].(*IfaceV)
		if iv == nil || iv.Typ == nil {
			out = append(out, nil)
			continue
		}
		switch x := iv.Val.(type) {
		case *StringV:
			g, ok := ex.goString(x)
			if !ok {
				panic(unsupported("fmt: symbolic string argument"))
			}
			out = append(out, g)
		case *Term:
			if !x.IsConst() {
				panic(unsupported("fmt: symbolic integer argument"))
			}
			if b, ok := iv.Typ.Underlying().(*types.Basic); ok && b.Info()&types.IsBoolean != 0 {
				out = append(out, x.Val != 0)
			} else if ok && b.Info()&types.IsUnsigned != 0 {
				out = append(out, x.Val)
			} else {
				out = append(out, x.SInt())
			}
		case *Pointer:
			if x.Obj != nil && strings.HasPrefix(x.Obj.Site, "error:") {
				out = append(out, errors.New(x.Obj.Name))
				continue
			}
			panic(unsupported("fmt: pointer argument"))
		default:
			panic(unsupported(fmt.Sprintf("fmt: argument of kind %T", iv.Val)))
		}
	}
	return out
}

func (ex *Exec) concreteSprintf(a []Value) string {
	f, ok := ex.goString(a[0].(*StringV))
	if !ok {
		panic(unsupported("fmt: symbolic format"))
	}
	return fmt.Sprintf(f, ex.concreteArgs(a[1])...)
}

func (ex *Exec) newError(msg string) Value {
	o := ex.newObject(nil, StructV{}, "error:"+msg)
	o.Name = msg
	return &IfaceV{Typ: ex.errorStringType(), Val: &Pointer{Obj: o}}
}

// libError returns the unique error value standing for an exported library error variable.
func (ex *Exec) libError(name string) Value {
	key := "liberr:" + name
	if v, ok := ex.ghost[key]; ok {
		return v
	}
	v := ex.newError(name)
	ex.ghost[key] = v
	return v
}

// ---------- verif runtime ----------

func (ex *Exec) argName(v Value) string {
	s, ok := ex.goString(v.(*StringV))
	if !ok {
		panic(unsupported("verif* name must be a constant string"))
	}
	return s
}

func (ex *Exec) verifCall(fn *ssa.Function, args []Value, fr *Frame) Value {
	tb := ex.tb
	switch fn.Name() {
	case "verifInt", "verifInt64", "verifUint64":
		return ex.freshVar(ex.argName(args[0]), 64)
	case "verifUint32", "verifInt32":
		return ex.freshVar(ex.argName(args[0]), 32)
	case "verifByte":
		return ex.freshVar(ex.argName(args[0]), 8)
	case "verifBool":
		return ex.freshVar(ex.argName(args[0]), 0)
	case "verifChoice":
		name := ex.argName(args[0])
		n := ex.concInt(args[1].(*Term), "verifChoice n")
		v := ex.freshVar(name, 64)
		rng := tb.Cmp(OpUlt, v, ex.i64(int64(n)))
		if ex.inThread() {
			ex.tmEvent(&Event{Kind: "assume", Cond: rng})
		}
		ex.addPC(rng)
		return ex.i64(int64(ex.concInt(v, "verifChoice "+name)))
	case "verifString", "verifBytes":
		// arbitrary bytes, length 0..max; the length is forked so it is concrete on each path
		name := ex.argName(args[0])
		max := ex.concInt(args[1].(*Term), "verifString max")
		lv := ex.freshVar(name+".len", 64)
		ex.addPC(tb.Cmp(OpUle, lv, ex.i64(int64(max))))
		n := ex.concInt(lv, "length of "+name)
		ts := make([]*Term, n)
		for i := range ts {
			ts[i] = ex.freshVar(fmt.Sprintf("%s[%d]", name, i), 8)
		}
		if fn.Name() == "verifString" {
			return ex.strFromTerms(ts)
		}
		if n == 0 && ex.branch(ex.freshVar(name+".nil", 0)) {
			return ex.zero(fn.Signature.Results().At(0).Type())
		}
		return ex.sliceFromTerms(ts, types.Typ[types.Uint8])
	case "verifBytesSym", "verifStringSym":
		// arbitrary bytes with a symbolic length 0..max (no fork)
		name := ex.argName(args[0])
		max := ex.concInt(args[1].(*Term), "verifBytesSym max")
		lv := ex.freshVar(name+".len", 64)
		ex.addPC(tb.Cmp(OpUle, lv, ex.i64(int64(max))))
		// the content is an uninterpreted function of the position: reads at symbolic offsets
		// are plain applications instead of max-way multiplexers
		uf := ex.freshVar(name+"@bytes", 0).Name
		ts := make([]*Term, max)
		for i := range ts {
			ts[i] = ex.tb.App(uf, 8, ex.i64(int64(i)))
		}
		if fn.Name() == "verifStringSym" {
			s := ex.strFromTerms(ts)
			s.Len = lv
			s.cs = nil
			s.Arr.UF = uf
			return s
		}
		s := ex.sliceFromTerms(ts, types.Typ[types.Uint8])
		s.Len = lv
		s.Cap = lv
		s.Arr.UF = uf
		return s
	case "verifAssume":
		if ex.inThread() {
			c := args[0].(*Term)
			ex.tmEvent(&Event{Kind: "assume", Cond: c})
			if c.IsFalse() {
				panic(pathEnd{"assume-false"})
			}
			ex.addPC(c)
			return nil
		}
		c := args[0].(*Term)
		if c.IsFalse() {
			panic(pathEnd{"assume-false"})
		}
		if !c.IsTrue() {
			ex.addPC(c)
			ex.pcDirty = true
		}
		return nil
	case "verifAssert":
		if ex.inThread() {
			// decided on the transition system, not path by path
			ex.tmEvent(&Event{Kind: "assert", Name: ex.argName(args[0]), Cond: args[1].(*Term), Pos: ex.curPos})
			return nil
		}
		ex.doAssert(ex.argName(args[0]), args[1].(*Term), "", nil)
		return nil
	case "verifAssertKF":
		// verifAssertKF(name, cond, findingID, findingPredicate): violations that satisfy the
		// predicate are attributed to the named known finding; any other violation is new.
		ex.doAssert(ex.argName(args[0]), args[1].(*Term), ex.argName(args[2]), args[3].(*Term))
		return nil
	case "verifSeqBound":
		bmcMaxSeq = ex.concInt(args[0].(*Term), "verifSeqBound")
		return nil
	case "verifGo":
		// verifGo(name, body): registers a harness thread (BMC systems)
		ex.bmcThreads = append(ex.bmcThreads, bmcThread{name: ex.argName(args[0]), body: args[1].(*FuncV)})
		return nil
	case "verifBMC":
		// end of the setup phase: run the selected thread's body in thread mode
		if ex.tm == nil {
			panic(unsupported("verifBMC outside a BMC run"))
		}
		if ex.tm.tid >= len(ex.bmcThreads) {
			panic(pathEnd{"no-such-thread"})
		}
		if ex.decIdx > 0 {
			panic(unsupported("symbolic branching in the setup phase of a BMC harness"))
		}
		ex.tm.setupPC = append([]*Term{}, ex.pc...)
		th := ex.bmcThreads[ex.tm.tid]
		ex.tm.name = th.name
		ex.tm.setupObjs = ex.nextObj
		ex.tm.active = true
		ex.invoke(th.body, nil, fr)
		ex.tm.active = false
		panic(pathEnd{"thread-done"})
	case "verifAtomic":
		if ex.inThread() {
			ex.tmEvent(&Event{Kind: "atomic-begin", Name: "verifAtomic", Pos: ex.curPos})
			ex.tm.atomic++
			ex.invoke(args[0].(*FuncV), nil, fr)
			ex.tm.atomic--
			ex.tmEvent(&Event{Kind: "atomic-end", Name: "verifAtomic"})
			return nil
		}
		ex.invoke(args[0].(*FuncV), nil, fr)
		return nil
	case "verifReach":
		if ex.inThread() {
			ex.tmEvent(&Event{Kind: "reach", Name: ex.argName(args[0])})
			return nil
		}
		ex.settle()
		ex.res.Reached = append(ex.res.Reached, ex.argName(args[0]))
		return nil
	case "verifNote":
		ex.res.Notes = append(ex.res.Notes, ex.argName(args[0]))
		return nil
	case "verifBlocked":
		// true iff a channel operation blocked on this path (sequential mode)
		_, b := ex.ghost["blocked"]
		return tb.Bool(b)
	case "verifFrozenWrite":
		_, b := ex.ghost["frozenWrite"]
		return tb.Bool(b)
	case "verifMaxAlloc":
		if t, ok := ex.ghost["maxAlloc"].(*Term); ok {
			return t
		}
		return ex.i64(0)
	case "verifResetAlloc":
		delete(ex.ghost, "maxAlloc")
		return nil
	case "verifAllocLimit":
		ex.ghost["allocLimit"] = args[0].(*Term)
		return nil
	case "verifSameBacking":
		a, b := args[0].(*SliceV), args[1].(*SliceV)
		return tb.Bool(a.Arr != nil && a.Arr == b.Arr)
	case "verifFreshBacking":
		// true iff the slice's backing array was allocated after the marker object id
		a := args[0].(*SliceV)
		m := ex.concInt(args[1].(*Term), "marker")
		return tb.Bool(a.Arr != nil && a.Arr.ID > m)
	case "verifHeapMark":
		return ex.i64(int64(ex.nextObj))
	case "verifBackingLen":
		a := args[0].(*SliceV)
		if a.Arr == nil {
			return ex.i64(0)
		}
		return ex.i64(int64(len(a.Arr.Val.(ArrayV))))
	case "verifWatchLockDeep":
		// verifWatchLockDeep(obj, mutex, pkgPaths...): like verifWatchLock, extended to every object of a
		// named type from the given packages that is or becomes reachable from *obj
		op := args[0].(*IfaceV).Val.(*Pointer)
		mp, _ := args[1].(*IfaceV).Val.(*Pointer)
		if op.IsNil() || mp == nil || mp.IsNil() {
			panic(unsupported("verifWatchLockDeep on nil"))
		}
		w := &lockWatch{mutex: mp, exempt: map[int]bool{}, name: typeStr(args[0].(*IfaceV).Typ)}
		for _, n := range ex.stringSliceElems(args[2]) {
			g, _ := ex.goString(n)
			w.deep = append(w.deep, g)
		}
		ex.watchLock[op.Obj] = w
		ex.watchDeepValue(w, op.Obj.Val)
		return nil
	case "verifWatchLock":
		// verifWatchLock(obj, mutex, exemptFieldNames...): from now on every access to a field of *obj must
		// happen with the mutex held (lock-set discipline; sequential harnesses)
		op := args[0].(*IfaceV).Val.(*Pointer)
		var mp *Pointer
		switch m := args[1].(*IfaceV).Val.(type) {
		case *Pointer:
			mp = m
		}
		if op.IsNil() || mp == nil || mp.IsNil() {
			panic(unsupported("verifWatchLock on nil"))
		}
		w := &lockWatch{mutex: mp, exempt: map[int]bool{}, name: typeStr(args[0].(*IfaceV).Typ)}
		if st, ok := args[0].(*IfaceV).Typ.(*types.Pointer).Elem().Underlying().(*types.Struct); ok {
			names := map[string]bool{}
			if len(args) > 2 {
				for _, n := range ex.stringSliceElems(args[2]) {
					g, _ := ex.goString(n)
					names[g] = true
				}
			}
			for k := 0; k < st.NumFields(); k++ {
				if names[st.Field(k).Name()] {
					w.exempt[k] = true
				}
			}
		}
		ex.watchLock[op.Obj] = w
		return nil
	case "verifUnlockedAccesses":
		if n, ok := ex.ghost["unlockedAccesses"].(*Term); ok {
			return n
		}
		return ex.i64(0)
	case "verifFreezeWhenStored":
		// verifFreezeWhenStored(&cell): an object whose address is stored into the cell becomes read-only
		p := args[0].(*IfaceV).Val.(*Pointer)
		ex.watchPublish[fmt.Sprintf("%d%s", p.Obj.ID, pathKey(p.Path))] = true
		return nil
	case "verifFreezeMap":
		switch m := args[0].(type) {
		case *MapV:
			if m.M != nil {
				m.M.Frozen = true
			}
		}
		return nil
	case "verifFreezeBytes":
		if s := args[0].(*SliceV); s.Arr != nil {
			s.Arr.Frozen = true
		}
		return nil
	case "verifRunSpawned":
		lst, _ := ex.ghost["spawned"].([]deferred)
		ex.ghost["spawned"] = []deferred(nil)
		for _, d := range lst {
			ex.invoke(d.fv, d.args, fr)
		}
		return nil
	case "verifParked":
		// number of blocking receives the current thread has committed to so far on this path
		if ex.inThread() {
			return ex.i64(int64(ex.tm.parks))
		}
		return ex.i64(0)
	case "verifOnSyncMapWrite":
		// verifOnSyncMapWrite(f): f runs after every Store / Delete / LoadAndDelete / LoadOrStore of any
		// sync.Map (nil: off)
		if fv, ok := args[0].(*FuncV); ok && (fv.Fn != nil || fv.Intr != "") {
			ex.ghost["onsyncmapwrite"] = fv
		} else {
			delete(ex.ghost, "onsyncmapwrite")
		}
		return nil
	case "verifOnLock":
		// verifOnLock(mutex, f): f runs at every (R)Lock of the mutex, before it is acquired
		// (sequential harnesses: "waiting for the lock takes time")
		mp, _ := args[0].(*IfaceV).Val.(*Pointer)
		if mp == nil || mp.IsNil() {
			panic(unsupported("verifOnLock on nil"))
		}
		ex.ghost[fmt.Sprintf("onlock:%p", ex.lockState(mp))] = args[1].(*FuncV)
		return nil
	case "verifConfigFieldsNotPersisted":
		bad := ex.ld.configFieldsNotPersisted()
		for _, b := range bad {
			ex.res.Events = append(ex.res.Events, "config field not persisted: "+b)
		}
		return ex.i64(int64(len(bad)))
	case "verifChanSliceLen", "verifChanSliceClear":
		// role-based access (robust against renames): the unique field of type []chan T of the struct
		iv := args[0].(*IfaceV)
		op, _ := iv.Val.(*Pointer)
		pt, ok := iv.Typ.(*types.Pointer)
		if !ok || op == nil || op.IsNil() {
			panic(unsupported(fn.Name() + ": not a pointer to a struct"))
		}
		st, ok := pt.Elem().Underlying().(*types.Struct)
		if !ok {
			panic(unsupported(fn.Name() + ": not a pointer to a struct"))
		}
		idx := -1
		for i := 0; i < st.NumFields(); i++ {
			if sl, ok := st.Field(i).Type().Underlying().(*types.Slice); ok {
				if _, ok := sl.Elem().Underlying().(*types.Chan); ok {
					if idx >= 0 {
						panic(unsupported(fn.Name() + ": more than one []chan field"))
					}
					idx = i
				}
			}
		}
		if idx < 0 {
			panic(unsupported(fn.Name() + ": no []chan field"))
		}
		q := &Pointer{Obj: op.Obj, Path: append(append([]PathEl{}, op.Path...), PathEl{Idx: idx})}
		if fn.Name() == "verifChanSliceClear" {
			ex.store(q, ex.zero(st.Field(idx).Type()))
			return nil
		}
		sv, _ := ex.load(q).(*SliceV)
		if sv == nil || sv.Arr == nil {
			return ex.i64(0)
		}
		return sv.Len
	case "verifSpawnedCount":
		lst, _ := ex.ghost["spawned"].([]deferred)
		return ex.i64(int64(len(lst)))
	case "verifLockHeld":
		var p *Pointer
		switch x := args[0].(type) {
		case *Pointer:
			p = x
		case *IfaceV:
			p = x.Val.(*Pointer)
		}
		st := ex.lockState(p)
		return tb.Bool(st["w"] > 0 || st["r"] > 0)
	case "verifExpectPanic":
		// runs f; returns true iff it panicked (the panic is swallowed)
		panicked := false
		func() {
			defer func() {
				if r := recover(); r != nil {
					if _, ok := r.(*goPanic); ok {
						panicked = true
						return
					}
					panic(r)
				}
			}()
			ex.invoke(args[0].(*FuncV), nil, fr)
		}()
		return tb.Bool(panicked)
	case "verifAnd":
		return tb.And(args[0].(*Term), args[1].(*Term))
	case "verifOr":
		return tb.Or(args[0].(*Term), args[1].(*Term))
	case "verifNot":
		return tb.Not(args[0].(*Term))
	case "verifImplies":
		return tb.Implies(args[0].(*Term), args[1].(*Term))
	case "verifIteInt", "verifIteByte", "verifIteBool":
		return tb.Ite(args[0].(*Term), args[1].(*Term), args[2].(*Term))
	case "verifFieldTag":
		// struct tag of a field, read from the types of the current source
		iv := args[0].(*IfaceV)
		st, ok := iv.Typ.Underlying().(*types.Struct)
		if !ok {
			panic(unsupported("verifFieldTag on a non-struct"))
		}
		name := ex.argName(args[1])
		for i := 0; i < st.NumFields(); i++ {
			if st.Field(i).Name() == name {
				return ex.constStr(st.Tag(i))
			}
		}
		return ex.constStr("")
	case "verifNative":
		if ex.res != nil && ex.res.NotComparable == "" {
			ex.res.NotComparable = "harness branches on verifNative()"
		}
		return tb.False
	case "verifTier":
		return ex.i64(int64(ex.opts.Tier))
	case "verifOpaqueID":
		// identity of an opaque/pointer value as an integer (for ghost bookkeeping)
		switch x := args[0].(type) {
		case *IfaceV:
			if p, ok := x.Val.(*Pointer); ok && !p.IsNil() {
				return ex.i64(int64(p.Obj.ID))
			}
		}
		return ex.i64(0)
	}
	panic(unsupported("verif runtime function " + fn.Name()))
}

func (ex *Exec) doAssert(name string, c *Term, kfID string, kf *Term) {
	rec := AssertRec{Name: name}
	ex.settle()
	if kf != nil && !c.IsTrue() {
		// first: violations outside the known finding
		cr := ex.sess.Check([]*Term{ex.tb.Not(c), ex.tb.Not(kf)}, true)
		switch cr.Res {
		case "sat":
			rec.Status, rec.Model = "violated", cr.Model
		case "unsat":
			cr2 := ex.sess.Check([]*Term{ex.tb.Not(c), kf}, true)
			switch cr2.Res {
			case "sat":
				rec.Status, rec.Model, rec.Detail = "known:"+kfID, cr2.Model, kfID
			case "unsat":
				rec.Status = "proved"
			default:
				rec.Status, rec.Detail = "unknown", cr2.Res+": "+cr2.Raw
			}
		default:
			rec.Status, rec.Detail = "unknown", cr.Res+": "+cr.Raw
		}
		ex.finishAssert(rec, c)
		return
	}
	switch {
	case c.IsTrue():
		rec.Status = "trivially-true"
	case c.IsFalse():
		cr := ex.sess.Check(nil, true)
		switch cr.Res {
		case "sat":
			rec.Status, rec.Model = "violated", cr.Model
		case "unsat":
			rec.Status = "proved"
		default:
			rec.Status, rec.Detail = "unknown", cr.Res
		}
	default:
		cr := ex.sess.Check([]*Term{ex.tb.Not(c)}, true)
		switch cr.Res {
		case "unsat":
			rec.Status = "proved"
		case "sat":
			rec.Status, rec.Model = "violated", cr.Model
		default:
			rec.Status, rec.Detail = "unknown", cr.Res+": "+cr.Raw
		}
	}
	ex.finishAssert(rec, c)
}

func (ex *Exec) finishAssert(rec AssertRec, c *Term) {
	if os.Getenv("SYMGO_DEBUG") != "" {
		fmt.Fprintf(os.Stderr, "  assert %s -> %s pc=%d\n", rec.Name, rec.Status, len(ex.pc))
	}
	if rec.Model != nil {
		rec.Prefix = append([]int{}, ex.decisions[:ex.decIdx]...)
	}
	ex.res.Asserts = append(ex.res.Asserts, rec)
	if rec.Status == "violated" || rec.Status == "unknown" || strings.HasPrefix(rec.Status, "known:") {
		// continue under the assumption that the assertion held
		if c.IsFalse() {
			panic(pathEnd{"assert-false"})
		}
		ex.addPC(c)
		if !ex.feasible(ex.tb.True) {
			panic(pathEnd{"assert-false"})
		}
	}
}

// ---------- sync ----------

func (ex *Exec) lockState(p *Pointer) map[string]int {
	if p.IsNil() {
		ex.goPanicf("nil pointer dereference (mutex)")
	}
	// key on object + path
	var key *Object = p.Obj
	if len(p.Path) > 0 {
		// embedded mutex: use a side object per path
		k := fmt.Sprintf("mutex:%d:%v", p.Obj.ID, p.Path)
		o, ok := ex.ghost[k].(*Object)
		if !ok {
			o = &Object{ID: -1}
			ex.ghost[k] = o
		}
		key = o
	}
	st := ex.mutexes[key]
	if st == nil {
		st = map[string]int{}
		ex.mutexes[key] = st
	}
	return st
}

func (ex *Exec) lockOp(recv Value, op string) Value {
	p := recv.(*Pointer)
	if ex.inThread() {
		ex.tmLock(p, op)
		return nil
	}
	st := ex.lockState(p)
	ex.callLog = append(ex.callLog, op)
	if op == "Lock" || op == "RLock" {
		// verifOnLock: the harness' model of what may happen while a request waits for this lock
		if cb, ok := ex.ghost[fmt.Sprintf("onlock:%p", st)].(*FuncV); ok && !ex.inOnLock {
			ex.inOnLock = true
			ex.invoke(cb, nil, ex.curFrame)
			ex.inOnLock = false
		}
	}
	switch op {
	case "Lock":
		if st["w"] > 0 || st["r"] > 0 {
			ex.res.Events = append(ex.res.Events, "self-deadlock: Lock of a held mutex"+ex.where())
			ex.ghost["blocked"] = ex.tb.True
			panic(pathEnd{"blocked: Lock of a mutex already held (sequential mode)"})
		}
		st["w"] = 1
	case "Unlock":
		if st["w"] == 0 {
			ex.goPanicf("sync: unlock of unlocked mutex")
		}
		st["w"] = 0
	case "RLock":
		if st["w"] > 0 {
			ex.res.Events = append(ex.res.Events, "self-deadlock: RLock of a write-held mutex"+ex.where())
			ex.ghost["blocked"] = ex.tb.True
			panic(pathEnd{"blocked: RLock of a mutex already held (sequential mode)"})
		}
		st["r"]++
	case "RUnlock":
		if st["r"] == 0 {
			ex.goPanicf("sync: RUnlock of unlocked RWMutex")
		}
		st["r"]--
	}
	return nil
}

func (ex *Exec) syncMap(recv Value) *MapObj {
	p := recv.(*Pointer)
	if p.IsNil() {
		ex.goPanicf("nil pointer dereference (sync.Map)")
	}
	k := fmt.Sprintf("syncmap:%d:%v", p.Obj.ID, p.Path)
	m, ok := ex.ghost[k].(*MapObj)
	if !ok {
		ex.nextMap++
		m = &MapObj{ID: ex.nextMap}
		ex.ghost[k] = m
	}
	return m
}

func intrSyncMapLoad(ex *Exec, fn *ssa.Function, a []Value, fr *Frame) Value {
	m := ex.syncMap(a[0])
	if e := ex.mapFind(m, a[1]); e != nil {
		return TupleV{e.Val, ex.tb.True}
	}
	return TupleV{&IfaceV{}, ex.tb.False}
}

// afterSyncMapWrite runs the harness' observer (verifOnSyncMapWrite) after a sync.Map was changed:
// what a concurrent reader of a registry can see between the steps of a reload.
func (ex *Exec) afterSyncMapWrite(fr *Frame) {
	cb, ok := ex.ghost["onsyncmapwrite"].(*FuncV)
	if !ok || ex.inSyncMapHook || ex.inThread() {
		return
	}
	ex.inSyncMapHook = true
	ex.invoke(cb, nil, fr)
	ex.inSyncMapHook = false
}

func intrSyncMapStore(ex *Exec, fn *ssa.Function, a []Value, fr *Frame) Value {
	m := ex.syncMap(a[0])
	if e := ex.mapFind(m, a[1]); e != nil {
		e.Val = a[2]
		ex.afterSyncMapWrite(fr)
		return nil
	}
	m.Entries = append(m.Entries, &MapEntry{Key: a[1], Val: a[2]})
	ex.afterSyncMapWrite(fr)
	return nil
}

func intrSyncMapDelete(ex *Exec, fn *ssa.Function, a []Value, fr *Frame) Value {
	m := ex.syncMap(a[0])
	for i, e := range m.Entries {
		if ex.branch(ex.valEq(e.Key, a[1])) {
			m.Entries = append(append([]*MapEntry{}, m.Entries[:i]...), m.Entries[i+1:]...)
			ex.afterSyncMapWrite(fr)
			break
		}
	}
	return nil
}

func intrSyncMapRange(ex *Exec, fn *ssa.Function, a []Value, fr *Frame) Value {
	m := ex.syncMap(a[0])
	entries := append([]*MapEntry{}, m.Entries...)
	for _, e := range entries {
		r := ex.invoke(a[1].(*FuncV), []Value{e.Key, e.Val}, fr).(*Term)
		if !ex.branch(r) {
			break
		}
	}
	return nil
}

// ---------- strings / strconv ----------

func (ex *Exec) stringSliceElems(v Value) []*StringV {
	s := v.(*SliceV)
	n := ex.concInt(s.Len, "[]string length")
	if n == 0 {
		return nil
	}
	off := ex.concInt(s.Off, "[]string offset")
	arr := s.Arr.Val.(ArrayV)
	out := make([]*StringV, n)
	for i := range out {
		out[i] = arr[off+i].(*StringV)
	}
	return out
}

func (ex *Exec) makeStringSlice(ss []*StringV) Value {
	arr := make(ArrayV, len(ss))
	for i, s := range ss {
		arr[i] = s
	}
	o := ex.newObject(nil, arr, "[]string")
	n := ex.i64(int64(len(ss)))
	return &SliceV{Arr: o, Off: ex.i64(0), Len: n, Cap: n, Elem: types.Typ[types.String]}
}

func intrStringsJoin(ex *Exec, fn *ssa.Function, a []Value, fr *Frame) Value {
	elems := ex.stringSliceElems(a[0])
	sep := ex.strBytes(a[1].(*StringV))
	var out []*Term
	for i, e := range elems {
		if i > 0 {
			out = append(out, sep...)
		}
		out = append(out, ex.strBytes(e)...)
	}
	return ex.strFromTerms(out)
}

// containsAt: pattern (concrete length) occurs in s at position i
func (ex *Exec) matchAt(s []*Term, i int, pat []*Term) *Term {
	if i+len(pat) > len(s) {
		return ex.tb.False
	}
	conj := make([]*Term, len(pat))
	for j := range pat {
		conj[j] = ex.tb.Eq(s[i+j], pat[j])
	}
	return ex.tb.And(conj...)
}

func intrStringsContains(ex *Exec, fn *ssa.Function, a []Value, fr *Frame) Value {
	s, sub := a[0].(*StringV), a[1].(*StringV)
	if gs, ok := ex.goString(s); ok {
		if gsub, ok := ex.goString(sub); ok {
			return ex.tb.Bool(strings.Contains(gs, gsub))
		}
	}
	sb, pb := ex.strBytes(s), ex.strBytes(sub)
	var dis []*Term
	for i := 0; i+len(pb) <= len(sb); i++ {
		dis = append(dis, ex.matchAt(sb, i, pb))
	}
	return ex.tb.Or(dis...)
}

func intrStringsHasPrefix(ex *Exec, fn *ssa.Function, a []Value, fr *Frame) Value {
	sb, pb := ex.strBytes(a[0].(*StringV)), ex.strBytes(a[1].(*StringV))
	return ex.matchAt(sb, 0, pb)
}

func intrStringsToLower(ex *Exec, fn *ssa.Function, a []Value, fr *Frame) Value {
	s := a[0].(*StringV)
	if gs, ok := ex.goString(s); ok {
		return ex.constStr(strings.ToLower(gs))
	}
	sb := ex.strBytes(s)
	tb := ex.tb
	// ASCII only: non-ASCII symbolic input is outside what the intrinsic models
	for _, b := range sb {
		if !ex.branch(tb.Cmp(OpUlt, b, tb.BV(8, 0x80))) {
			panic(unsupported("strings.ToLower on non-ASCII symbolic input"))
		}
	}
	out := make([]*Term, len(sb))
	for i, b := range sb {
		isUp := tb.And(tb.Cmp(OpUle, tb.BV(8, 'A'), b), tb.Cmp(OpUle, b, tb.BV(8, 'Z')))
		out[i] = tb.Ite(isUp, tb.Add(b, tb.BV(8, 32)), b)
	}
	return ex.strFromTerms(out)
}

func intrStringsSplit(ex *Exec, fn *ssa.Function, a []Value, fr *Frame) Value {
	gs, ok1 := ex.goString(a[0].(*StringV))
	sep, ok2 := ex.goString(a[1].(*StringV))
	if !ok1 || !ok2 {
		panic(unsupported("strings.Split on symbolic input"))
	}
	var out []*StringV
	for _, p := range strings.Split(gs, sep) {
		out = append(out, ex.constStr(p))
	}
	return ex.makeStringSlice(out)
}

func intrStringsTrimSpace(ex *Exec, fn *ssa.Function, a []Value, fr *Frame) Value {
	gs, ok := ex.goString(a[0].(*StringV))
	if !ok {
		panic(unsupported("strings.TrimSpace on symbolic input"))
	}
	return ex.constStr(strings.TrimSpace(gs))
}

// intrAtoi models strconv.Atoi on a string view whose offset/length may be symbolic:
// optional sign, then one or more decimal digits; anything else yields (0, err);
// overflow saturates to MaxInt64 / MinInt64 with a range error.
func intrAtoi(ex *Exec, fn *ssa.Function, a []Value, fr *Frame) Value {
	s := a[0].(*StringV)
	val, ok := ex.atoiTerm(s)
	errSyntax := ex.libError("strconv.ErrSyntax")
	_ = errSyntax
	// error value: nil iff ok; callers in pike ignore it, but keep nil-ness exact
	if ok.IsConst() {
		if ok.IsTrue() {
			return TupleV{val, &IfaceV{}}
		}
		return TupleV{val, ex.libError("strconv.NumError")}
	}
	if ex.branch(ok) {
		return TupleV{val, &IfaceV{}}
	}
	return TupleV{val, ex.libError("strconv.NumError")}
}

// atoiTerm returns (value, noError).
func (ex *Exec) atoiTerm(s *StringV) (*Term, *Term) {
	tb := ex.tb
	if gs, ok := ex.goString(s); ok {
		v, e := atoiRef(gs)
		return ex.i64(v), tb.Bool(e == 0)
	}
	if s.Arr == nil {
		return ex.i64(0), tb.False
	}
	if s.Off.IsConst() && s.Len.IsConst() && s.Len.SInt() < 19 {
		// concrete length below 19: strconv's fast path, no overflow possible
		bs := ex.strBytes(s)
		n := len(bs)
		if n == 0 {
			return ex.i64(0), tb.False
		}
		isDig := func(c *Term) *Term {
			return tb.And(tb.Cmp(OpUle, tb.BV(8, '0'), c), tb.Cmp(OpUle, c, tb.BV(8, '9')))
		}
		dig := func(c *Term) *Term { return tb.ZExt(tb.Sub(c, tb.BV(8, '0')), 64) }
		neg := tb.Eq(bs[0], tb.BV(8, '-'))
		signed := tb.Or(neg, tb.Eq(bs[0], tb.BV(8, '+')))
		ok := tb.Or(signed, isDig(bs[0]))
		if n == 1 {
			ok = isDig(bs[0])
		}
		acc := tb.Ite(signed, ex.i64(0), dig(bs[0]))
		for j := 1; j < n; j++ {
			ok = tb.And(ok, isDig(bs[j]))
			acc = tb.Add(tb.Bin(OpMul, acc, tb.BV(64, 10)), dig(bs[j]))
		}
		val := tb.Ite(neg, tb.Un(OpNeg, acc), acc)
		return tb.Ite(ok, val, ex.i64(0)), ok
	}
	arr := s.Arr.Val.(ArrayV)
	n := len(arr)
	end := tb.Add(s.Off, s.Len)
	b := func(q int) *Term { return arr[q].(*Term) }
	first := ex.strByteAtSafe(s, ex.i64(0))
	neg := tb.Eq(first, tb.BV(8, '-'))
	plus := tb.Eq(first, tb.BV(8, '+'))
	signed := tb.Or(neg, plus)
	digStart := tb.Ite(signed, tb.Add(s.Off, ex.i64(1)), s.Off)
	ndig := tb.Sub(end, digStart)
	syntaxOK := tb.And(tb.Cmp(OpSlt, ex.i64(0), s.Len), tb.Cmp(OpSlt, ex.i64(0), ndig))
	acc := tb.BV(64, 0)
	over := tb.False
	cut := tb.BV(64, 922337203685477580)
	var allDig []*Term
	for q := 0; q < n; q++ {
		qi := ex.i64(int64(q))
		inside := tb.And(tb.Cmp(OpSle, digStart, qi), tb.Cmp(OpSlt, qi, end))
		if inside.IsFalse() {
			continue
		}
		c := b(q)
		isDig := tb.And(tb.Cmp(OpUle, tb.BV(8, '0'), c), tb.Cmp(OpUle, c, tb.BV(8, '9')))
		allDig = append(allDig, tb.Implies(inside, isDig))
		d := tb.ZExt(tb.Sub(c, tb.BV(8, '0')), 64)
		nover := tb.Or(over, tb.Cmp(OpUlt, cut, acc))
		nacc := tb.Add(tb.Bin(OpMul, acc, tb.BV(64, 10)), d)
		acc = tb.Ite(inside, nacc, acc)
		over = tb.Ite(inside, nover, over)
	}
	syntaxOK = tb.And(append(allDig, syntaxOK)...)
	lim := tb.BV(64, uint64(1)<<63)
	overPos := tb.Or(over, tb.Cmp(OpUle, lim, acc))
	overNeg := tb.Or(over, tb.Cmp(OpUlt, lim, acc))
	posVal := tb.Ite(overPos, tb.BV(64, uint64(1)<<63-1), acc)
	negVal := tb.Ite(overNeg, lim, tb.Un(OpNeg, acc))
	val := tb.Ite(neg, negVal, posVal)
	val = tb.Ite(syntaxOK, val, tb.BV(64, 0))
	noErr := tb.And(syntaxOK, tb.Not(tb.Ite(neg, overNeg, overPos)))
	return val, noErr
}

// atoiRef is the concrete reference (mirrors strconv.Atoi's value/err-kind).
func atoiRef(s string) (int64, int) {
	if len(s) == 0 {
		return 0, 1
	}
	neg := false
	d := s
	if s[0] == '-' || s[0] == '+' {
		neg = s[0] == '-'
		d = s[1:]
		if len(d) == 0 {
			return 0, 1
		}
	}
	var acc uint64
	over := false
	for i := 0; i < len(d); i++ {
		c := d[i]
		if c < '0' || c > '9' {
			return 0, 1
		}
		if acc > 922337203685477580 {
			over = true
		}
		acc = acc*10 + uint64(c-'0')
	}
	lim := uint64(1) << 63
	if neg {
		if over || acc > lim {
			return -1 << 63, 2
		}
		return -int64(acc), 0
	}
	if over || acc >= lim {
		return 1<<63 - 1, 2
	}
	return int64(acc), 0
}

func intrItoa(ex *Exec, fn *ssa.Function, a []Value, fr *Frame) Value {
	t := a[0].(*Term)
	if t.IsConst() {
		return ex.constStr(fmt.Sprintf("%d", t.SInt()))
	}
	// symbolic integer: an abstract string tagged with the integer (length unknown is not modelled)
	o := &Opaque{Kind: "itoa", ID: t}
	s := ex.constStr("<itoa>")
	s.cs = nil
	s.Arr.Name = "itoa"
	ex.ghost[fmt.Sprintf("itoa:%d", s.Arr.ID)] = o
	return s
}

// ---------- bytes / binary ----------

func intrBytesJoin(ex *Exec, fn *ssa.Function, a []Value, fr *Frame) Value {
	s := a[0].(*SliceV)
	n := ex.concInt(s.Len, "bytes.Join count")
	sep := ex.sliceTerms(a[1].(*SliceV))
	var out []*Term
	if n > 0 {
		off := ex.concInt(s.Off, "bytes.Join offset")
		arr := s.Arr.Val.(ArrayV)
		for i := 0; i < n; i++ {
			if i > 0 {
				out = append(out, sep...)
			}
			out = append(out, ex.sliceTerms(arr[off+i].(*SliceV))...)
		}
	}
	return ex.sliceFromTerms(out, types.Typ[types.Uint8])
}

// bytes.Buffer is modelled as an object {buf *SliceV, off *Term}
func intrBytesNewBuffer(ex *Exec, fn *ssa.Function, a []Value, fr *Frame) Value {
	o := ex.newObject(nil, StructV{a[0], ex.i64(0)}, "bytes.Buffer")
	return &Pointer{Obj: o}
}

func (ex *Exec) bufParts(v Value) (*Object, *SliceV, *Term) {
	p := v.(*Pointer)
	if p.IsNil() {
		ex.goPanicf("nil *bytes.Buffer")
	}
	sv := p.Obj.Val.(StructV)
	return p.Obj, sv[0].(*SliceV), sv[1].(*Term)
}

func intrBufferLen(ex *Exec, fn *ssa.Function, a []Value, fr *Frame) Value {
	_, buf, off := ex.bufParts(a[0])
	return ex.tb.Sub(buf.Len, off)
}

func intrBufferBytes(ex *Exec, fn *ssa.Function, a []Value, fr *Frame) Value {
	_, buf, off := ex.bufParts(a[0])
	if buf.Arr == nil {
		return buf
	}
	return &SliceV{Arr: buf.Arr, Off: ex.tb.Add(buf.Off, off), Len: ex.tb.Sub(buf.Len, off), Cap: ex.tb.Sub(buf.Cap, off), Elem: buf.Elem}
}

func intrBufferNext(ex *Exec, fn *ssa.Function, a []Value, fr *Frame) Value {
	tb := ex.tb
	o, buf, off := ex.bufParts(a[0])
	n := tb.SExt(a[1].(*Term), 64)
	m := tb.Sub(buf.Len, off)
	n2 := tb.Ite(tb.Cmp(OpSlt, m, n), m, n)
	// data := b.buf[b.off : b.off+n]  (negative n panics in the real code)
	ex.check(tb.Cmp(OpSle, ex.i64(0), n2), "bytes.Buffer.Next: slice bounds out of range")
	res := &SliceV{Arr: buf.Arr, Off: tb.Add(buf.Off, off), Len: n2, Cap: tb.Sub(buf.Cap, off), Elem: buf.Elem}
	if buf.Arr == nil {
		res = &SliceV{Off: ex.i64(0), Len: ex.i64(0), Cap: ex.i64(0), Elem: buf.Elem}
	}
	o.Val.(StructV)[1] = tb.Add(off, n2)
	return res
}

func intrBinaryRead(ex *Exec, fn *ssa.Function, a []Value, fr *Frame) Value {
	tb := ex.tb
	// reader must be a *bytes.Buffer, data a *uint32 / *uint64
	r := a[0].(*IfaceV)
	if r.Typ == nil || !strings.HasSuffix(typeStr(r.Typ), "bytes.Buffer") {
		panic(unsupported("binary.Read from " + fmt.Sprint(r.Typ)))
	}
	d := a[2].(*IfaceV)
	pt, ok := d.Typ.(*types.Pointer)
	if !ok {
		panic(unsupported("binary.Read into " + d.Typ.String()))
	}
	w, _, ok := intWidth(pt.Elem())
	if !ok || (w != 32 && w != 64) {
		panic(unsupported("binary.Read into " + d.Typ.String()))
	}
	nb := w / 8
	o, buf, off := ex.bufParts(r.Val)
	rem := tb.Sub(buf.Len, off)
	if ex.branch(tb.Cmp(OpSle, ex.i64(int64(nb)), rem)) {
		var v *Term
		for i := 0; i < nb; i++ {
			pos := tb.Add(tb.Add(buf.Off, off), ex.i64(int64(i)))
			b := ex.readAt(buf.Arr, pos)
			if v == nil {
				v = b
			} else {
				v = tb.Concat(v, b)
			}
		}
		o.Val.(StructV)[1] = tb.Add(off, ex.i64(int64(nb)))
		ex.store(d.Val.(*Pointer), v)
		return &IfaceV{}
	}
	// short read: io.EOF when nothing is left, io.ErrUnexpectedEOF otherwise; the buffer is drained
	if ex.branch(tb.Eq(rem, ex.i64(0))) {
		return ex.libError("io.EOF")
	}
	o.Val.(StructV)[1] = buf.Len
	return ex.libError("io.ErrUnexpectedEOF")
}

// (*bytes.Buffer).Read: copies min(len(p), remaining) bytes; an empty buffer answers io.EOF unless
// len(p) == 0; a partial read is NOT an error.
// pure string functions evaluated on concrete arguments only (symbolic arguments: unsupported)
func concStr1(f func(string) string) func(*Exec, *ssa.Function, []Value, *Frame) Value {
	return func(ex *Exec, fn *ssa.Function, a []Value, fr *Frame) Value {
		x, ok := ex.goString(a[0].(*StringV))
		if !ok {
			panic(unsupported(fn.String() + " on symbolic input"))
		}
		return ex.constStr(f(x))
	}
}

func concStr2(f func(string, string) string) func(*Exec, *ssa.Function, []Value, *Frame) Value {
	return func(ex *Exec, fn *ssa.Function, a []Value, fr *Frame) Value {
		x, ok1 := ex.goString(a[0].(*StringV))
		y, ok2 := ex.goString(a[1].(*StringV))
		if !ok1 || !ok2 {
			panic(unsupported(fn.String() + " on symbolic input"))
		}
		return ex.constStr(f(x, y))
	}
}

func concStrBool2(f func(string, string) bool) func(*Exec, *ssa.Function, []Value, *Frame) Value {
	return func(ex *Exec, fn *ssa.Function, a []Value, fr *Frame) Value {
		x, ok1 := ex.goString(a[0].(*StringV))
		y, ok2 := ex.goString(a[1].(*StringV))
		if !ok1 || !ok2 {
			panic(unsupported(fn.String() + " on symbolic input"))
		}
		return ex.tb.Bool(f(x, y))
	}
}

func concStrInt2(f func(string, string) int) func(*Exec, *ssa.Function, []Value, *Frame) Value {
	return func(ex *Exec, fn *ssa.Function, a []Value, fr *Frame) Value {
		x, ok1 := ex.goString(a[0].(*StringV))
		y, ok2 := ex.goString(a[1].(*StringV))
		if !ok1 || !ok2 {
			panic(unsupported(fn.String() + " on symbolic input"))
		}
		return ex.i64(int64(f(x, y)))
	}
}

func intrBufferRead(ex *Exec, fn *ssa.Function, a []Value, fr *Frame) Value {
	tb := ex.tb
	o, buf, off := ex.bufParts(a[0])
	p := a[1].(*SliceV)
	rem := tb.Sub(buf.Len, off)
	plen := ex.concInt(p.Len, "bytes.Buffer.Read: len(p)")
	if ex.branch(tb.Eq(rem, ex.i64(0))) {
		if plen == 0 {
			return TupleV{ex.i64(0), &IfaceV{}}
		}
		return TupleV{ex.i64(0), ex.libError("io.EOF")}
	}
	if plen == 0 {
		return TupleV{ex.i64(0), &IfaceV{}}
	}
	n := tb.Ite(tb.Cmp(OpSlt, rem, ex.i64(int64(plen))), rem, ex.i64(int64(plen)))
	poff := ex.concInt(p.Off, "bytes.Buffer.Read: offset of p")
	arr := p.Arr.Val.(ArrayV)
	p.Arr.UF = ""
	for i := 0; i < plen; i++ {
		inRange := tb.Cmp(OpSlt, ex.i64(int64(i)), n)
		// positions beyond the data are not read: clamp the index so that the read stays in bounds
		pos := tb.Add(tb.Add(buf.Off, off), tb.Ite(inRange, ex.i64(int64(i)), ex.i64(0)))
		b := ex.readAt(buf.Arr, pos)
		old, _ := arr[poff+i].(*Term)
		if old == nil {
			old = tb.BV(8, 0)
		}
		arr[poff+i] = tb.Ite(inRange, b, old)
	}
	o.Val.(StructV)[1] = tb.Add(off, n)
	return TupleV{n, &IfaceV{}}
}

// io.ReadFull(r, buf) for a *bytes.Buffer reader: len(buf) bytes or an error (io.EOF when nothing
// was left, io.ErrUnexpectedEOF after a partial read; the buffer is drained then).
func intrIOReadFull(ex *Exec, fn *ssa.Function, a []Value, fr *Frame) Value {
	tb := ex.tb
	r := a[0].(*IfaceV)
	if r.Typ == nil || !strings.HasSuffix(typeStr(r.Typ), "bytes.Buffer") {
		panic(unsupported("io.ReadFull from " + fmt.Sprint(r.Typ)))
	}
	p := a[1].(*SliceV)
	plen := ex.concInt(p.Len, "io.ReadFull: len(buf)")
	if plen == 0 {
		return TupleV{ex.i64(0), &IfaceV{}}
	}
	o, buf, off := ex.bufParts(r.Val)
	rem := tb.Sub(buf.Len, off)
	poff := ex.concInt(p.Off, "io.ReadFull: offset of buf")
	arr := p.Arr.Val.(ArrayV)
	if ex.branch(tb.Cmp(OpSle, ex.i64(int64(plen)), rem)) {
		p.Arr.UF = ""
		for i := 0; i < plen; i++ {
			arr[poff+i] = ex.readAt(buf.Arr, tb.Add(tb.Add(buf.Off, off), ex.i64(int64(i))))
		}
		o.Val.(StructV)[1] = tb.Add(off, ex.i64(int64(plen)))
		return TupleV{ex.i64(int64(plen)), &IfaceV{}}
	}
	if ex.branch(tb.Eq(rem, ex.i64(0))) {
		return TupleV{ex.i64(0), ex.libError("io.EOF")}
	}
	// partial read: the available bytes are copied, the count is what was left
	p.Arr.UF = ""
	for i := 0; i < plen; i++ {
		inRange := tb.Cmp(OpSlt, ex.i64(int64(i)), rem)
		pos := tb.Add(tb.Add(buf.Off, off), tb.Ite(inRange, ex.i64(int64(i)), ex.i64(0)))
		old, _ := arr[poff+i].(*Term)
		if old == nil {
			old = tb.BV(8, 0)
		}
		arr[poff+i] = tb.Ite(inRange, ex.readAt(buf.Arr, pos), old)
	}
	o.Val.(StructV)[1] = buf.Len
	return TupleV{rem, ex.libError("io.ErrUnexpectedEOF")}
}

func (ex *Exec) getUint(s *SliceV, nb int) Value {
	ex.check(ex.tb.Cmp(OpSle, ex.i64(int64(nb)), s.Len), "Uint: index out of range")
	var v *Term
	for i := 0; i < nb; i++ {
		b := ex.readAt(s.Arr, ex.tb.Add(s.Off, ex.i64(int64(i))))
		if v == nil {
			v = b
		} else {
			v = ex.tb.Concat(v, b)
		}
	}
	return v
}

func (ex *Exec) putUint(s *SliceV, v *Term, nb int) Value {
	// _ = b[nb-1] bounds check
	ex.check(ex.tb.Cmp(OpSle, ex.i64(int64(nb)), s.Len), "PutUint: index out of range")
	off := ex.concInt(s.Off, "PutUint offset")
	arr := s.Arr.Val.(ArrayV)
	s.Arr.UF = ""
	for i := 0; i < nb; i++ {
		hi := v.W - 1 - 8*i
		arr[off+i] = ex.tb.Extract(v, hi, hi-7)
	}
	return nil
}

func intrMemHash(ex *Exec, fn *ssa.Function, a []Value, fr *Frame) Value {
	return ex.memHash(ex.sliceTerms(a[0].(*SliceV)))
}

// memHash: an uninterpreted function of the bytes (per length), i.e. *any* hash function.
func (ex *Exec) memHash(bs []*Term) Value {
	if len(bs) == 0 {
		return ex.tb.App("memhash_0", 64)
	}
	return ex.tb.App(fmt.Sprintf("memhash_%d", len(bs)), 64, bs...)
}

// ---------- http.Header ----------

func (ex *Exec) canonKey(v Value) *StringV {
	s := v.(*StringV)
	g, ok := ex.goString(s)
	if !ok {
		panic(unsupported("symbolic header name"))
	}
	return ex.constStr(textproto.CanonicalMIMEHeaderKey(g))
}

func (ex *Exec) headerEntry(h Value, key *StringV) *MapEntry {
	m := h.(*MapV)
	if m.M == nil {
		return nil
	}
	return ex.mapFind(m.M, key)
}

func intrHeaderGet(ex *Exec, fn *ssa.Function, a []Value, fr *Frame) Value {
	e := ex.headerEntry(a[0], ex.canonKey(a[1]))
	if e == nil {
		return ex.constStr("")
	}
	vs := ex.stringSliceElems(e.Val)
	if len(vs) == 0 {
		return ex.constStr("")
	}
	return vs[0]
}

func intrHeaderValues(ex *Exec, fn *ssa.Function, a []Value, fr *Frame) Value {
	e := ex.headerEntry(a[0], ex.canonKey(a[1]))
	if e == nil {
		return &SliceV{Off: ex.i64(0), Len: ex.i64(0), Cap: ex.i64(0), Elem: types.Typ[types.String]}
	}
	return e.Val
}

func intrHeaderSet(ex *Exec, fn *ssa.Function, a []Value, fr *Frame) Value {
	ex.mapUpdate(a[0], ex.canonKey(a[1]), ex.makeStringSlice([]*StringV{a[2].(*StringV)}))
	return nil
}

func intrHeaderAdd(ex *Exec, fn *ssa.Function, a []Value, fr *Frame) Value {
	key := ex.canonKey(a[1])
	e := ex.headerEntry(a[0], key)
	if e == nil {
		ex.mapUpdate(a[0], key, ex.makeStringSlice([]*StringV{a[2].(*StringV)}))
		return nil
	}
	if a[0].(*MapV).M.Frozen {
		ex.ghost["frozenWrite"] = ex.tb.True
		ex.res.Events = append(ex.res.Events, "Header.Add on frozen map"+ex.where())
	}
	e.Val = ex.makeStringSlice(append(ex.stringSliceElems(e.Val), a[2].(*StringV)))
	return nil
}

func intrHeaderDel(ex *Exec, fn *ssa.Function, a []Value, fr *Frame) Value {
	ex.mapDelete(a[0].(*MapV), ex.canonKey(a[1]))
	return nil
}

func intrHeaderClone(ex *Exec, fn *ssa.Function, a []Value, fr *Frame) Value {
	m := a[0].(*MapV)
	if m.M == nil {
		return &MapV{}
	}
	ex.nextMap++
	n := &MapObj{ID: ex.nextMap, KeyT: m.M.KeyT, ValT: m.M.ValT}
	for _, e := range m.M.Entries {
		n.Entries = append(n.Entries, &MapEntry{Key: e.Key, Val: ex.makeStringSlice(ex.stringSliceElems(e.Val))})
	}
	return &MapV{M: n}
}

func sortedKeys(m map[string]int) []string {
	var ks []string
	for k := range m {
		ks = append(ks, k)
	}
	sort.Strings(ks)
	return ks
}

// ---------- encoding/json (uninterpreted inverse pair for http.Header) ----------
//
// Marshal(header) yields a short concrete byte string that identifies the header set;
// Unmarshal of exactly those bytes restores an equal header set.  Any other input makes
// Unmarshal fail or yield an arbitrary (fresh, empty) header: the JSON codec itself is
// outside the claim (DESIGN.md §8).

func intrJSONMarshal(ex *Exec, fn *ssa.Function, a []Value, fr *Frame) Value {
	v := a[0].(*IfaceV)
	m, ok := v.Val.(*MapV)
	if !ok {
		panic(unsupported("json.Marshal of " + fmt.Sprint(v.Typ)))
	}
	var enc string
	if m.M == nil {
		enc = "null"
	} else {
		// equal header sets get the same image: key on the (concrete) content
		content := ""
		for _, e := range m.M.Entries {
			k, _ := ex.goString(e.Key.(*StringV))
			content += k + "="
			for _, v := range ex.stringSliceElems(e.Val) {
				g, ok := ex.goString(v)
				if !ok {
					panic(unsupported("json.Marshal of a header with symbolic values"))
				}
				content += fmt.Sprintf("%q,", g)
			}
			content += ";"
		}
		if id, ok := ex.ghost["jsonid:"+content].(*Term); ok {
			enc = fmt.Sprintf("{J%d}", id.Val)
		} else {
			n, _ := ex.ghost["jsonCount"].(*Term)
			k := 0
			if n != nil {
				k = int(n.Val)
			}
			k++
			ex.ghost["jsonCount"] = ex.i64(int64(k))
			ex.ghost["jsonid:"+content] = ex.i64(int64(k))
			enc = fmt.Sprintf("{J%d}", k)
		}
		ex.ghost["json:"+enc] = intrHeaderClone(ex, nil, []Value{m}, fr)
	}
	bs := make([]*Term, len(enc))
	for i := range bs {
		bs[i] = ex.tb.BV(8, uint64(enc[i]))
	}
	return TupleV{ex.sliceFromTerms(bs, types.Typ[types.Uint8]), &IfaceV{}}
}

func intrJSONUnmarshal(ex *Exec, fn *ssa.Function, a []Value, fr *Frame) Value {
	data := a[0].(*SliceV)
	dst := a[1].(*IfaceV).Val.(*Pointer)
	if data.Len.IsConst() && data.Off.IsConst() {
		bs := ex.sliceTerms(data)
		conc := true
		b := make([]byte, len(bs))
		for i, t := range bs {
			if !t.IsConst() {
				conc = false
				break
			}
			b[i] = byte(t.Val)
		}
		if conc {
			enc := string(b)
			if enc == "null" {
				return &IfaceV{}
			}
			if h, ok := ex.ghost["json:"+enc]; ok {
				ex.store(dst, intrHeaderClone(ex, nil, []Value{h}, fr))
				return &IfaceV{}
			}
		}
	}
	// arbitrary bytes: may fail, may succeed with some header set.  The success case is split so that
	// counterexamples through the documents "{}" and "null" replay natively; other documents are
	// followed under the assumption that encoding/json accepted them.
	tb := ex.tb
	isDoc := func(doc string) *Term {
		conj := []*Term{tb.Eq(data.Len, ex.i64(int64(len(doc))))}
		for i := 0; i < len(doc); i++ {
			pos := tb.Add(data.Off, ex.i64(int64(i)))
			if data.Arr == nil {
				return tb.False
			}
			if pos.IsConst() && int(pos.SInt()) >= len(data.Arr.Val.(ArrayV)) {
				return tb.False
			}
			conj = append(conj, tb.Eq(ex.readAt(data.Arr, pos), tb.BV(8, uint64(doc[i]))))
		}
		return tb.And(conj...)
	}
	if ex.branch(isDoc("{}")) {
		ex.nextMap++
		ex.store(dst, &MapV{M: &MapObj{ID: ex.nextMap}})
		return &IfaceV{}
	}
	if ex.branch(isDoc("null")) {
		return &IfaceV{}
	}
	if ex.branch(ex.freshVar("json.Unmarshal.ok", 0)) {
		ex.nextMap++
		ex.store(dst, &MapV{M: &MapObj{ID: ex.nextMap}})
		return &IfaceV{}
	}
	return ex.libError("json.SyntaxError")
}

// sort.Slice: insertion sort driven by the real less closure (a comparison on symbolic data forks).
// The result is one order consistent with less; harnesses that care about ties permute their input.
func intrSortSlice(ex *Exec, fn *ssa.Function, a []Value, fr *Frame) Value {
	iv := a[0].(*IfaceV)
	s, ok := iv.Val.(*SliceV)
	if !ok {
		panic(unsupported("sort.Slice of a non-slice"))
	}
	n := ex.concInt(s.Len, "sort.Slice length")
	if n < 2 {
		return nil
	}
	off := ex.concInt(s.Off, "sort.Slice offset")
	arr := s.Arr.Val.(ArrayV)
	less := a[1].(*FuncV)
	for i := 1; i < n; i++ {
		for j := i; j > 0; j-- {
			r := ex.invoke(less, []Value{ex.i64(int64(j)), ex.i64(int64(j - 1))}, fr).(*Term)
			if !ex.branch(r) {
				break
			}
			if s.Arr.Frozen {
				ex.noteFrozenWrite(&Pointer{Obj: s.Arr})
			}
			arr[off+j], arr[off+j-1] = arr[off+j-1], arr[off+j]
		}
	}
	return nil
}
