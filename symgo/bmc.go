package main

// Bounded model checking of concurrent harnesses under a symbolic scheduler.
//
// 1. Every harness thread is executed symbolically over the real SSA in thread mode
//    (thread.go); all its paths form a tree of events (shared-memory accesses, lock and
//    channel operations, environment stubs, assertions).  Which shared cells are mutable is
//    found by a fixpoint over the threads' write sets.
// 2. Events are grouped into atomic transactions by a mover analysis (Lipton reduction):
//    lock acquisitions are right-movers, releases left-movers, accesses to cells that are
//    consistently protected by a held lock both-movers; every access to a cell that is not
//    consistently protected, every channel operation and every lock acquisition starts a
//    new transaction.
// 3. The transactions are unrolled K times with one scheduler variable per step; every
//    obligation (assertion, completion/deadlock-freedom, data-race freedom, reachability
//    witnesses) is one QF_BV query for z3.

import (
	"fmt"
	"os"
	"path/filepath"
	"sort"
	"strings"
	"sync"
	"time"

	"golang.org/x/tools/go/ssa"
)

type BMCSpec struct {
	Name  string
	Pkg   string
	Fn    string
	Init  []string
	Tier  string
	Reach []string // reachability witnesses that must be satisfiable
	ExpectReach []string
	TimeoutSec int
	Only       []string // obligation name prefixes decided for this property (empty: all); encoding/unwinding/reach obligations always run
}

type BMCViolation struct {
	Replay string
	What   string
}

type BMCResult struct {
	Summary         map[string]interface{}
	Inconclusive    []string
	Known           map[string]string
	Violations      []BMCViolation
	Paths           int
	Obligations     int
	Discharged      int
	ObligationNames []string
	Samples         []interface{}
	States          int // symbolic control locations (transactions) x (K+1) steps
	Transitions     int // guarded outcomes x K steps encoded
	Replayed        int
}

// pike functions entered while the event trees were built (all BMC systems of the run)
var bmcFuncs = map[string]bool{}

var bmcStats struct {
	NQ, NSat, NUnsat, NUnk int
	Dur                    time.Duration
}

// ---------- event trees ----------

type TEdge struct {
	key  string
	cond *Term
	to   *TNode
}

type TNode struct {
	id    int
	tid   int
	ev    *Event // nil for the root
	edges []*TEdge
	end   string // non-empty for leaves: thread-done, assume-false, panic, ...
	endDetail string
}

type threadTree struct {
	tid   int
	name  string
	root  *TNode
	nodes int
	paths int
}

func (tt *threadTree) insert(trace []traceItem, end, detail string) {
	cur := tt.root
	var conds []*Term
	var key strings.Builder
	tb := (*TB)(nil)
	_ = tb
	flush := func(ev *Event, endReason string) *TNode {
		k := key.String()
		for _, e := range cur.edges {
			if e.key == k {
				return e.to
			}
		}
		tt.nodes++
		n := &TNode{id: tt.nodes, tid: tt.tid, ev: ev, end: endReason}
		cur.edges = append(cur.edges, &TEdge{key: k, cond: nil, to: n})
		cur.edges[len(cur.edges)-1].cond = andAll(conds)
		return n
	}
	for _, it := range trace {
		if it.dec {
			conds = append(conds, it.cond)
			fmt.Fprintf(&key, "%d,", it.val)
			continue
		}
		n := flush(it.ev, "")
		cur = n
		conds = nil
		key.Reset()
	}
	// leaf
	key.WriteString("$" + end)
	leaf := flush(nil, end)
	leaf.endDetail = detail
}

// mergeIsomorphic turns the tree into a DAG by merging nodes with identical events and
// identical (recursively merged) successors.
func (tt *threadTree) mergeIsomorphic() (before, after int) {
	canon := map[string]*TNode{}
	var count func(n *TNode, seen map[*TNode]bool) int
	count = func(n *TNode, seen map[*TNode]bool) int {
		if seen[n] {
			return 0
		}
		seen[n] = true
		c := 1
		for _, e := range n.edges {
			c += count(e.to, seen)
		}
		return c
	}
	before = count(tt.root, map[*TNode]bool{})
	var walk func(n *TNode) *TNode
	memo := map[*TNode]*TNode{}
	walk = func(n *TNode) *TNode {
		if m, ok := memo[n]; ok {
			return m
		}
		var sig strings.Builder
		if n.ev != nil {
			ev := n.ev
			fmt.Fprintf(&sig, "%s|", ev.Kind)
			if ev.Cell != nil {
				sig.WriteString(ev.Cell.Key)
			}
			sig.WriteString("|" + ev.Mutex + "|" + ev.Name + "|")
			sigTerms := append(append([]*Term{ev.Var, ev.Val, ev.Ch, ev.Cond}, ev.Vals...), ev.Vars...)
			for _, t := range sigTerms {
				if t != nil {
					fmt.Fprintf(&sig, "%d,", t.ID)
				} else {
					sig.WriteString("-,")
				}
			}
			fmt.Fprintf(&sig, "%v", ev.Atomic)
		} else {
			sig.WriteString("leaf:" + n.end + ":" + n.endDetail)
		}
		for _, e := range n.edges {
			e.to = walk(e.to)
			cid := 0
			if e.cond != nil {
				cid = e.cond.ID
			}
			fmt.Fprintf(&sig, ";%d>%p", cid, e.to)
		}
		if n == tt.root {
			memo[n] = n
			return n
		}
		k := sig.String()
		if c, ok := canon[k]; ok {
			memo[n] = c
			return c
		}
		canon[k] = n
		memo[n] = n
		return n
	}
	walk(tt.root)
	after = count(tt.root, map[*TNode]bool{})
	return
}

var bmcTB *TB
var bmcSetupPC []*Term

func andAll(cs []*Term) *Term {
	if len(cs) == 0 {
		return nil
	}
	return bmcTB.And(cs...)
}

// buildTrees explores every path of every thread (single worker: all terms live in one TB).
func (w *World) buildTrees(hf *ssa.Function, opts *RunOpts, ex *Exec, mutable map[string]bool, known bool, writeLock map[string]map[string]bool) (trees []*threadTree, cells map[string]*Cell, written map[string]bool, problems []string, nthreads int) {
	cells = map[string]*Cell{}
	written = map[string]bool{}
	nthreads = -1
	for tid := 0; nthreads < 0 || tid < nthreads; tid++ {
		tt := &threadTree{tid: tid, root: &TNode{tid: tid}}
		queue := [][]int{nil}
		ex.emit = func(np []int) { queue = append(queue, np) }
		for len(queue) > 0 {
			prefix := queue[len(queue)-1]
			queue = queue[:len(queue)-1]
			ex.tm = &threadMode{tid: tid, mutable: mutable, written: map[string]bool{}, touched: map[string]*Cell{}, mutableKnown: known,
				held: map[string]string{}, cache: map[string]Value{}, writeLock: writeLock, posCount: map[string]int{}}
			res := ex.RunPath(hf, prefix)
			for f := range res.Funcs {
				bmcFuncs[f] = true
			}
			tm := ex.tm
			if tm.setupPC != nil {
				bmcSetupPC = tm.setupPC
			}
			if nthreads < 0 {
				nthreads = len(ex.bmcThreads)
			}
			if res.End == "no-such-thread" {
				break
			}
			tt.name = tm.name
			tt.paths++
			for k := range tm.written {
				written[k] = true
			}
			for k, c := range tm.touched {
				if old, ok := cells[k]; !ok || (old.Init == nil && c.Init != nil) {
					cells[k] = c
				}
			}
			switch res.End {
			case "thread-done", "assume-false", "assume-infeasible", "infeasible", "seq-overflow":
				tt.insert(tm.trace, res.End, "")
			case "panic":
				tt.insert(tm.trace, "panic", res.Panic)
			case "unsupported":
				problems = append(problems, fmt.Sprintf("thread %s: unsupported: %s", tm.name, res.Unsup))
				tt.insert(tm.trace, "unsupported", res.Unsup)
			default:
				problems = append(problems, fmt.Sprintf("thread %s: path ended with %q", tm.name, res.End))
				tt.insert(tm.trace, res.End, "")
			}
			if tt.paths > 20000 {
				problems = append(problems, "thread "+tm.name+": more than 20000 paths")
				break
			}
		}
		if nthreads < 0 || tid >= nthreads {
			break
		}
		trees = append(trees, tt)
	}
	ex.emit = nil
	ex.tm = nil
	return
}

// cellGroup strips the sub-cell suffix (#len, #e0, ...) so that a slice counts as one location.
func cellGroup(key string) string {
	if i := strings.Index(key, "#"); i >= 0 {
		return key[:i]
	}
	return key
}

// ---------- transactions ----------

type microEv struct {
	ev    *Event
	guard *Term // condition of the edge leading to this event (nil = true)
}

type outcome struct {
	guard   []*Term
	events  []*Event
	evGuard [][]*Term // guard prefix at each event (for assertions)
	next    *TNode    // start node of the next transaction (nil: leaf)
	leaf    string    // end reason when next == nil
	leafDetail string
}

type transaction struct {
	id       int // per thread, 1-based; 0 = DONE
	tid      int
	start    *TNode
	first    *Event
	outcomes []*outcome
	held     map[string]string // locks held at the start (mutex -> "w"/"r")
}

type accessInfo struct {
	cell  *Cell
	write bool
	tid   int
	heldW map[string]bool
	heldR map[string]bool
	atomic bool
}

func copyHeld(h map[string]string) map[string]string {
	n := map[string]string{}
	for k, v := range h {
		n[k] = v
	}
	return n
}

// collectAccesses walks a tree recording the lock sets of every shared access.
var accessSeen map[string]bool

func heldKey(h map[string]string) string {
	var ks []string
	for k, v := range h {
		ks = append(ks, k+"="+v)
	}
	sort.Strings(ks)
	return strings.Join(ks, ",")
}

func collectAccesses(n *TNode, held map[string]string, inAtomic int, out *[]accessInfo) {
	if accessSeen != nil {
		k := fmt.Sprintf("%p|%s", n, heldKey(held))
		if accessSeen[k] {
			return
		}
		accessSeen[k] = true
	}
	if n.ev != nil {
		switch n.ev.Kind {
		case "lock":
			held = copyHeld(held)
			held[n.ev.Mutex] = "w"
		case "rlock":
			held = copyHeld(held)
			held[n.ev.Mutex] = "r"
		case "unlock", "runlock":
			held = copyHeld(held)
			delete(held, n.ev.Mutex)
		case "read", "write":
			ai := accessInfo{cell: n.ev.Cell, write: n.ev.Kind == "write", tid: n.tid, heldW: map[string]bool{}, heldR: map[string]bool{}, atomic: n.ev.Atomic}
			for m, mode := range held {
				if mode == "w" {
					ai.heldW[m] = true
				}
				ai.heldR[m] = true
			}
			*out = append(*out, ai)
		}
	}
	for _, e := range n.edges {
		collectAccesses(e.to, held, inAtomic, out)
	}
}

// protectedCells: a cell is consistently protected if one mutex is held in write mode at
// every write and in (at least) read mode at every read, or if it is only accessed inside
// atomic environment stubs (ghost state), or by a single thread.
func protectedCells(acc []accessInfo) (prot map[string]bool, why map[string]string, writeLock map[string]map[string]bool) {
	prot = map[string]bool{}
	why = map[string]string{}
	writeLock = map[string]map[string]bool{}
	for _, a := range acc {
		if !a.write || a.atomic {
			continue
		}
		key := cellGroup(a.cell.Key)
		if cur, ok := writeLock[key]; !ok {
			n := map[string]bool{}
			for m := range a.heldW {
				n[m] = true
			}
			writeLock[key] = n
		} else {
			for m := range cur {
				if !a.heldW[m] {
					delete(cur, m)
				}
			}
		}
	}
	byCell := map[string][]accessInfo{}
	for _, a := range acc {
		byCell[a.cell.Key] = append(byCell[a.cell.Key], a)
	}
	for key, as := range byCell {
		allAtomic := true
		tids := map[int]bool{}
		for _, a := range as {
			if !a.atomic {
				allAtomic = false
			}
			tids[a.tid] = true
		}
		if allAtomic {
			prot[key] = true
			why[key] = "ghost (only accessed inside atomic stubs)"
			continue
		}
		if len(tids) == 1 {
			prot[key] = true
			why[key] = "accessed by one thread only"
			continue
		}
		var cand map[string]bool
		for _, a := range as {
			if a.atomic {
				continue
			}
			set := a.heldR
			if a.write {
				set = a.heldW
			}
			if cand == nil {
				cand = map[string]bool{}
				for m := range set {
					cand[m] = true
				}
			} else {
				for m := range cand {
					if !set[m] {
						delete(cand, m)
					}
				}
			}
		}
		if len(cand) > 0 {
			prot[key] = true
			for m := range cand {
				why[key] = "protected by mutex " + m
			}
		} else {
			why[key] = "NOT consistently protected"
		}
	}
	return
}

type txBuilder struct {
	indeg     map[*TNode]int
	writeLock map[string]map[string]bool
	prot  map[string]bool
	txs   []*transaction
	byNode map[*TNode]*transaction
	tid   int
}

// mover: a write is a both-mover when its cell is consistently protected; a read is one when the
// reader holds a mutex that every writer of the cell holds in write mode.
func (b *txBuilder) mover(ev *Event, held map[string]string) bool {
	if b.prot[ev.Cell.Key] {
		return true
	}
	if ev.Kind == "write" {
		return false
	}
	wl, ok := b.writeLock[cellGroup(ev.Cell.Key)]
	if !ok {
		return true
	}
	for m := range held {
		if wl[m] {
			return true
		}
	}
	return false
}

func isBlocking(ev *Event) bool {
	switch ev.Kind {
	case "lock", "rlock", "send", "recv", "trysend", "park":
		return true
	}
	return false
}

// build creates the transaction starting at node n (n.ev is its first event).
// maxOutcomes: a transaction with more internal paths than this is split at the nodes where paths
// re-join (finer scheduling granularity is always sound; it keeps the formula linear in the DAG).
const maxOutcomes = 24

func (b *txBuilder) build(n *TNode, held map[string]string) *transaction {
	if t, ok := b.byNode[n]; ok {
		return t
	}
	t := &transaction{id: len(b.txs) + 1, tid: b.tid, start: n, first: n.ev, held: copyHeld(held)}
	b.txs = append(b.txs, t)
	b.byNode[n] = t
	pend := b.expand(t, n, held, false)
	if len(t.outcomes) > maxOutcomes {
		t.outcomes = nil
		pend = b.expand(t, n, held, true)
	}
	for _, p := range pend {
		b.build(p.node, p.held)
	}
	return t
}

type pendingTx struct {
	node *TNode
	held map[string]string
}

func (b *txBuilder) expand(t *transaction, n *TNode, held map[string]string, cutAtMerge bool) []pendingTx {
	type frame struct {
		node   *TNode
		guards []*Term
		events []*Event
		evG    [][]*Term
		post   bool
		atomic int
		held   map[string]string
	}
	var pending []pendingTx
	var walk func(f frame)
	walk = func(f frame) {
		if !cutAtMerge && len(t.outcomes) > maxOutcomes {
			return // the caller re-expands this transaction with cuts at merge points
		}
		ev := f.node.ev
		// include ev
		f.events = append(append([]*Event{}, f.events...), ev)
		f.evG = append(append([][]*Term{}, f.evG...), append([]*Term{}, f.guards...))
		f.held = copyHeld(f.held)
		switch ev.Kind {
		case "lock":
			f.held[ev.Mutex] = "w"
		case "rlock":
			f.held[ev.Mutex] = "r"
		case "unlock", "runlock":
			delete(f.held, ev.Mutex)
			f.post = true
		case "send", "recv", "trysend", "park":
			f.post = true
		case "atomic-begin":
			f.atomic++
			f.post = true
		case "atomic-end":
			f.atomic--
		case "read", "write":
			if f.atomic == 0 && !b.mover(ev, f.held) {
				f.post = true
			}
		}
		if len(f.node.edges) == 0 {
			panic("event node without successors")
		}
		for _, e := range f.node.edges {
			g := f.guards
			if e.cond != nil {
				g = append(append([]*Term{}, f.guards...), e.cond)
			}
			c := e.to
			if c.ev == nil {
				t.outcomes = append(t.outcomes, &outcome{guard: g, events: f.events, evGuard: f.evG, leaf: c.end, leafDetail: c.endDetail})
				continue
			}
			cut := false
			if f.atomic == 0 {
				switch {
				case isBlocking(c.ev):
					cut = true
				case c.ev.Kind == "atomic-begin":
					cut = f.post
				case (c.ev.Kind == "read" || c.ev.Kind == "write") && !b.mover(c.ev, f.held):
					cut = true
				}
			}
			if !cut && cutAtMerge && b.indeg[c] > 1 && f.atomic == 0 {
				cut = true
			}
			if cut {
				t.outcomes = append(t.outcomes, &outcome{guard: g, events: f.events, evGuard: f.evG, next: c})
				pending = append(pending, pendingTx{c, f.held})
				continue
			}
			walk(frame{node: c, guards: g, events: f.events, evG: f.evG, post: f.post, atomic: f.atomic, held: f.held})
		}
	}
	walk(frame{node: n, held: held})
	return pending
}

// ---------- the transition system ----------

type bmcSystem struct {
	tb       *TB
	trees    []*threadTree
	cells    []*Cell
	cellIdx  map[string]*Cell
	mutexes  []string
	prot     map[string]bool
	protWhy  map[string]string
	writeLock map[string]map[string]bool
	txs      [][]*transaction // per thread
	rootTx   []*transaction
	K        int
	nthreads int
	problems []string
	leafEnds map[string]int
	porConstraints int
}

type footprint struct {
	reads, writes map[string]bool
	mutexes       map[string]bool
	channel       bool
}

func txFootprint(tx *transaction) *footprint {
	f := &footprint{reads: map[string]bool{}, writes: map[string]bool{}, mutexes: map[string]bool{}}
	for _, o := range tx.outcomes {
		for _, ev := range o.events {
			switch ev.Kind {
			case "read":
				f.reads[ev.Cell.Key] = true
			case "write":
				f.writes[ev.Cell.Key] = true
			case "lock", "unlock", "rlock", "runlock":
				f.mutexes[ev.Mutex] = true
			case "send", "recv", "trysend", "park":
				f.channel = true
			}
		}
	}
	return f
}

func independent(a, b *footprint) bool {
	if a.channel && b.channel {
		return false
	}
	for m := range a.mutexes {
		if b.mutexes[m] {
			return false
		}
	}
	for c := range a.writes {
		if b.writes[c] || b.reads[c] {
			return false
		}
	}
	for c := range b.writes {
		if a.reads[c] {
			return false
		}
	}
	return true
}

const pcDone = 0
const pcDead = 250
const pcPanic = 251

func (s *bmcSystem) cellVar(c *Cell, k int) *Term {
	return s.tb.Var(fmt.Sprintf("%s!%d", c.Key, k), c.W)
}
func (s *bmcSystem) lockW(m string, k int) *Term { return s.tb.Var(fmt.Sprintf("%s.w!%d", m, k), 0) }
func (s *bmcSystem) lockR(m string, k int) *Term { return s.tb.Var(fmt.Sprintf("%s.r!%d", m, k), 4) }
func (s *bmcSystem) pcVar(t, k int) *Term       { return s.tb.Var(fmt.Sprintf("pc%d!%d", t, k), 8) }
func (s *bmcSystem) schedVar(k int) *Term       { return s.tb.Var(fmt.Sprintf("sched!%d", k), 4) }

func txDepth(t *transaction, byNode map[*TNode]*transaction, memo map[*transaction]int) int {
	if d, ok := memo[t]; ok {
		return d
	}
	best := 0
	for _, o := range t.outcomes {
		if o.next != nil {
			if d := txDepth(byNode[o.next], byNode, memo); d > best {
				best = d
			}
		}
	}
	memo[t] = best + 1
	return best + 1
}

type obligation struct {
	name   string
	kind   string // assert | complete | race | reach | nopanic
	expect string // "unsat" (property) or "sat" (witness)
	term   *Term
	detail string
	kfID   string
	kfTerm *Term
}

// encode builds the base constraints and the obligations.
func (s *bmcSystem) encode() (base []*Term, obls []*obligation) {
	tb := s.tb
	K := s.K
	type writer struct {
		sel *Term
		val *Term
	}
	asserts := map[string][]*Term{}    // name -> violation disjuncts
	assertKF := map[string]*obligation{}
	reaches := map[string][]*Term{}
	var panics []*Term
	var panicWhat []string
	var overflow []*Term
	var gaps []*Term
	var fireHist []map[*transaction]*Term
	// initial state
	for _, c := range s.cells {
		init := c.Init
		if init == nil {
			if c.W == 0 {
				init = tb.False
			} else {
				init = tb.BV(c.W, 0)
			}
		}
		base = append(base, tb.Eq(s.cellVar(c, 0), init))
	}
	for _, m := range s.mutexes {
		base = append(base, tb.Not(s.lockW(m, 0)), tb.Eq(s.lockR(m, 0), tb.BV(4, 0)))
	}
	for t := 0; t < s.nthreads; t++ {
		start := pcDone
		if s.rootTx[t] != nil {
			start = s.rootTx[t].id
		}
		base = append(base, tb.Eq(s.pcVar(t, 0), tb.BV(8, uint64(start))))
	}
	_ = 0
	for k := 0; k < K; k++ {
		sched := s.schedVar(k)
		base = append(base, tb.Cmp(OpUlt, sched, tb.BV(4, uint64(s.nthreads))))
		cellW := map[string][]writer{}
		lockWW := map[string][]writer{}
		lockRW := map[string][]writer{}
		pcW := make([][]writer, s.nthreads)
		var anyEnabled []*Term
		var anyFire []*Term
		// receive transactions are fired by their partner's send
		type recvSite struct {
			tx *transaction
			at *Term
		}
		var recvs []recvSite
		for t := 0; t < s.nthreads; t++ {
			for _, tx := range s.txs[t] {
				if tx.first.Kind == "recv" {
					recvs = append(recvs, recvSite{tx, tb.Eq(s.pcVar(t, k), tb.BV(8, uint64(tx.id)))})
				}
			}
		}
		fireOf := map[*transaction]*Term{}
		recvFire := map[*transaction][]*Term{}
		for t := 0; t < s.nthreads; t++ {
			for _, tx := range s.txs[t] {
				if tx.first.Kind == "recv" {
					continue
				}
				at := tb.Eq(s.pcVar(t, k), tb.BV(8, uint64(tx.id)))
				en := tb.True
				switch tx.first.Kind {
				case "lock":
					en = tb.And(tb.Not(s.lockW(tx.first.Mutex, k)), tb.Eq(s.lockR(tx.first.Mutex, k), tb.BV(4, 0)))
				case "rlock":
					en = tb.Not(s.lockW(tx.first.Mutex, k))
				case "send", "trysend":
					// rendezvous with the lowest-numbered thread waiting on the same channel
					var partners []*Term
					taken := tb.False
					for _, r := range recvs {
						if r.tx.tid == t {
							continue
						}
						m := tb.And(r.at, tb.Eq(r.tx.first.Ch, tx.first.Ch))
						sel := tb.And(m, tb.Not(taken))
						partners = append(partners, sel)
						taken = tb.Or(taken, m)
						pair := tb.And(tb.Eq(sched, tb.BV(4, uint64(t))), at, sel)
						recvFire[r.tx] = append(recvFire[r.tx], pair)
						// the payload is handed over
						if len(r.tx.first.Vars) == len(tx.first.Vals) {
							for i, rv := range r.tx.first.Vars {
								base = append(base, tb.Implies(pair, tb.Eq(rv, tx.first.Vals[i])))
							}
						} else if len(r.tx.first.Vars)+len(tx.first.Vals) > 0 {
							base = append(base, tb.Not(pair))
						}
					}
					en = tb.Or(partners...)
					if tx.first.Kind == "trysend" {
						// never blocks: the select reports whether the communication happened
						base = append(base, tb.Implies(tb.And(tb.Eq(sched, tb.BV(4, uint64(t))), at),
							tb.Eq(tx.first.Var, tb.Ite(en, tb.BV(64, 0), tb.BV(64, ^uint64(0))))))
						en = tb.True
					}
				}
				enabled := tb.And(at, en)
				anyEnabled = append(anyEnabled, enabled)
				fire := tb.And(tb.Eq(sched, tb.BV(4, uint64(t))), enabled)
				anyFire = append(anyFire, fire)
				fireOf[tx] = fire
			}
		}
		for _, r := range recvs {
			fireOf[r.tx] = tb.Or(recvFire[r.tx]...)
		}
		fireHist = append(fireHist, fireOf)
		// effects
		for t := 0; t < s.nthreads; t++ {
			for _, tx := range s.txs[t] {
				fire := fireOf[tx]
				if fire.IsFalse() {
					continue
				}
				var someOutcome []*Term
				for _, o := range tx.outcomes {
					someOutcome = append(someOutcome, tb.And(o.guard...))
				}
				gaps = append(gaps, tb.And(fire, tb.Not(tb.Or(someOutcome...))))
				for _, o := range tx.outcomes {
					seenRead := map[int]bool{}
					sel := tb.And(append([]*Term{fire}, o.guard...)...)
					cur := map[string]*Term{}
					curLW := map[string]*Term{}
					curLR := map[string]*Term{}
					for i, ev := range o.events {
						pre := tb.And(append([]*Term{fire}, o.evGuard[i]...)...)
						switch ev.Kind {
						case "read":
							if seenRead[ev.Var.ID] {
								continue
							}
							seenRead[ev.Var.ID] = true
							if v, ok := cur[ev.Cell.Key]; ok {
								base = append(base, tb.Implies(pre, tb.Eq(ev.Var, v)))
							} else {
								base = append(base, tb.Implies(pre, tb.Eq(ev.Var, s.cellVar(s.cellIdx[ev.Cell.Key], k))))
							}
						case "write":
							cur[ev.Cell.Key] = ev.Val
						case "lock":
							curLW[ev.Mutex] = tb.True
						case "unlock":
							curLW[ev.Mutex] = tb.False
						case "rlock":
							old, ok := curLR[ev.Mutex]
							if !ok {
								old = s.lockR(ev.Mutex, k)
							}
							curLR[ev.Mutex] = tb.Add(old, tb.BV(4, 1))
						case "runlock":
							old, ok := curLR[ev.Mutex]
							if !ok {
								old = s.lockR(ev.Mutex, k)
							}
							curLR[ev.Mutex] = tb.Sub(old, tb.BV(4, 1))
						case "assume":
							base = append(base, tb.Implies(pre, ev.Cond))
						case "assert":
							asserts[ev.Name] = append(asserts[ev.Name], tb.And(pre, tb.Not(ev.Cond)))
						case "reach":
							reaches[ev.Name] = append(reaches[ev.Name], pre)
						}
					}
					for key, v := range cur {
						cellW[key] = append(cellW[key], writer{sel, v})
					}
					for m, v := range curLW {
						lockWW[m] = append(lockWW[m], writer{sel, v})
					}
					for m, v := range curLR {
						lockRW[m] = append(lockRW[m], writer{sel, v})
					}
					next := pcDone
					if o.next != nil {
						next = findTx(s.txs[t], o.next).id
					} else {
						switch o.leaf {
						case "thread-done":
							next = pcDone
						case "panic":
							next = pcPanic
							panics = append(panics, sel)
							panicWhat = append(panicWhat, o.leafDetail)
						case "seq-overflow":
							next = pcDead
							overflow = append(overflow, sel)
						default:
							// assume-false / infeasible leaves: executions through them are excluded
							next = pcDead
							base = append(base, tb.Not(sel))
						}
					}
					pcW[t] = append(pcW[t], writer{sel, tb.BV(8, uint64(next))})
				}
			}
		}
		// frame: next-state functions
		mk := func(ws []writer, old *Term) *Term {
			v := old
			for i := len(ws) - 1; i >= 0; i-- {
				v = tb.Ite(ws[i].sel, ws[i].val, v)
			}
			return v
		}
		for _, c := range s.cells {
			base = append(base, tb.Eq(s.cellVar(c, k+1), mk(cellW[c.Key], s.cellVar(c, k))))
		}
		for _, m := range s.mutexes {
			base = append(base, tb.Eq(s.lockW(m, k+1), mk(lockWW[m], s.lockW(m, k))))
			base = append(base, tb.Eq(s.lockR(m, k+1), mk(lockRW[m], s.lockR(m, k))))
		}
		for t := 0; t < s.nthreads; t++ {
			base = append(base, tb.Eq(s.pcVar(t, k+1), mk(pcW[t], s.pcVar(t, k))))
		}
		// the scheduler picks an enabled thread whenever there is one
		base = append(base, tb.Implies(tb.Or(anyEnabled...), tb.Or(anyFire...)))
	}
	// ---- partial-order reduction (peephole): two adjacent independent transactions of different
	// threads only in ascending thread order (any execution can be brought into this form by
	// swapping adjacent independent steps, which changes neither thread-local views nor final states)
	if os.Getenv("SYMGO_NOPOR") == "" {
		fp := map[*transaction]*footprint{}
		for t := 0; t < s.nthreads; t++ {
			for _, tx := range s.txs[t] {
				fp[tx] = txFootprint(tx)
			}
		}
		npor := 0
		// the reduction pays off only while it stays small: count the independent pairs first
		pairs := 0
		for a := 0; a < s.nthreads; a++ {
			for b := 0; b < a; b++ {
				for _, ta := range s.txs[a] {
					for _, tbx := range s.txs[b] {
						if independent(fp[ta], fp[tbx]) {
							pairs++
						}
					}
				}
			}
		}
		if pairs*K > 40000 {
			pairs = -1
		}
		for a := 0; a < s.nthreads && pairs >= 0; a++ {
			for b := 0; b < a; b++ {
				for _, ta := range s.txs[a] {
					for _, tbx := range s.txs[b] {
						if !independent(fp[ta], fp[tbx]) {
							continue
						}
						for k := 0; k+1 < K; k++ {
							fa, fb := fireHist[k][ta], fireHist[k+1][tbx]
							if fa == nil || fb == nil || fa.IsFalse() || fb.IsFalse() {
								continue
							}
							base = append(base, tb.Not(tb.And(fa, fb)))
							npor++
						}
					}
				}
			}
		}
		s.porConstraints = npor
	}
	// ---- obligations ----
	var names []string
	for n := range asserts {
		names = append(names, n)
	}
	sort.Strings(names)
	for _, n := range names {
		if ob, ok := assertKF[n]; ok {
			obls = append(obls, ob)
			continue
		}
		obls = append(obls, &obligation{name: n, kind: "assert", expect: "unsat", term: tb.Or(asserts[n]...)})
	}
	// completion: with K = sum of the longest transaction chains and a scheduler that always runs an
	// enabled thread, a thread that is not done at step K is blocked for ever (deadlock / lost wake-up)
	var notDone []*Term
	for t := 0; t < s.nthreads; t++ {
		notDone = append(notDone, tb.Ne(s.pcVar(t, K), tb.BV(8, pcDone)))
	}
	obls = append(obls, &obligation{name: "every-thread-completes (no deadlock, no lost wake-up)", kind: "complete", expect: "unsat", term: tb.And(tb.Or(notDone...), tb.Not(tb.Or(panics...)), tb.Not(tb.Or(overflow...)))})
	obls = append(obls, &obligation{name: "encoding: every fired transaction has an outcome", kind: "unwind", expect: "unsat", term: tb.Or(gaps...)})
	if len(overflow) > 0 {
		obls = append(obls, &obligation{name: "unwinding: shared sequence, recursion and re-park bounds are sufficient", kind: "unwind", expect: "unsat", term: tb.Or(overflow...)})
	}
	if len(panics) > 0 {
		obls = append(obls, &obligation{name: "no-panic", kind: "nopanic", expect: "unsat", term: tb.Or(panics...), detail: strings.Join(uniq(panicWhat), "; ")})
	}
	// data races: two threads simultaneously at conflicting accesses of an unprotected cell
	type site struct {
		tx    *transaction
		write bool
	}
	sites := map[string][]site{}
	for t := 0; t < s.nthreads; t++ {
		for _, tx := range s.txs[t] {
			ev := tx.first
			if (ev.Kind == "read" || ev.Kind == "write") && !ev.Atomic {
				b := &txBuilder{prot: s.prot, writeLock: s.writeLock}
				if !b.mover(ev, tx.held) {
					sites[cellGroup(ev.Cell.Key)] = append(sites[cellGroup(ev.Cell.Key)], site{tx, ev.Kind == "write"})
				}
			}
		}
	}
	var raceCells []string
	for c := range sites {
		raceCells = append(raceCells, c)
	}
	sort.Strings(raceCells)
	for _, c := range raceCells {
		var dis []*Term
		ss := sites[c]
		for i := 0; i < len(ss); i++ {
			for j := i + 1; j < len(ss); j++ {
				a, b := ss[i], ss[j]
				if a.tx.tid == b.tx.tid || (!a.write && !b.write) {
					continue
				}
				// a common lock held by both rules the pair out
				common := false
				for m := range a.tx.held {
					if _, ok := b.tx.held[m]; ok && (a.tx.held[m] == "w" || b.tx.held[m] == "w") {
						common = true
					}
				}
				if common {
					continue
				}
				for k := 0; k <= K; k++ {
					dis = append(dis, tb.And(tb.Eq(s.pcVar(a.tx.tid, k), tb.BV(8, uint64(a.tx.id))), tb.Eq(s.pcVar(b.tx.tid, k), tb.BV(8, uint64(b.tx.id)))))
				}
			}
		}
		if len(dis) > 0 {
			desc := c
			for _, cc := range s.cells {
				if cellGroup(cc.Key) == c {
					desc = cellGroup(cc.Desc)
					break
				}
			}
			obls = append(obls, &obligation{name: "race-free:" + desc, kind: "race", expect: "unsat", term: tb.Or(dis...), detail: c})
		}
	}
	names = names[:0]
	for n := range reaches {
		names = append(names, n)
	}
	sort.Strings(names)
	for _, n := range names {
		obls = append(obls, &obligation{name: "reach:" + n, kind: "reach", expect: "sat", term: tb.Or(reaches[n]...)})
	}
	return
}

func sameWriteLock(a, b map[string]map[string]bool) bool {
	if len(a) != len(b) {
		return false
	}
	for k, am := range a {
		bm, ok := b[k]
		if !ok || len(am) != len(bm) {
			return false
		}
		for m := range am {
			if !bm[m] {
				return false
			}
		}
	}
	return true
}

func uniq(ss []string) []string {
	m := map[string]bool{}
	var out []string
	for _, s := range ss {
		if !m[s] {
			m[s] = true
			out = append(out, s)
		}
	}
	return out
}

func findTx(txs []*transaction, n *TNode) *transaction {
	for _, t := range txs {
		if t.start == n {
			return t
		}
	}
	panic("transaction for node not found")
}

// ---------- driver ----------

func (w *World) buildBMCSystem(bs BMCSpec, tierN int, solver *Solver) (*bmcSystem, error) {
	sp := w.ld.Src[pikeMod+"/"+bs.Pkg]
	if sp == nil {
		return nil, fmt.Errorf("package %s not loaded", bs.Pkg)
	}
	hf := sp.Func(bs.Fn)
	if hf == nil {
		return nil, fmt.Errorf("harness %s.%s not found", bs.Pkg, bs.Fn)
	}
	opts := &RunOpts{InitPkgs: bs.Init, Tier: tierN}
	ex := NewExec(w.ld, solver, w.hooks, opts)
	bmcTB = ex.tb
	mutable := map[string]bool{}
	var trees []*threadTree
	var cells map[string]*Cell
	var problems []string
	nthreads := 0
	var writeLock map[string]map[string]bool
	for pass := 0; pass < 8; pass++ {
		var written map[string]bool
		t0 := time.Now()
		trees, cells, written, problems, nthreads = w.buildTrees(hf, opts, ex, mutable, pass > 0, writeLock)
		grew := false
		for k := range written {
			if !mutable[k] {
				mutable[k] = true
				grew = true
			}
		}
		var acc []accessInfo
		for _, tt := range trees {
			accessSeen = map[string]bool{}
			collectAccesses(tt.root, map[string]string{}, 0, &acc)
		}
		_, _, wl := protectedCells(acc)
		same := writeLock != nil && sameWriteLock(wl, writeLock)
		writeLock = wl
		if os.Getenv("SYMGO_DEBUG") != "" {
			np := 0
			for _, tt := range trees {
				np += tt.paths
			}
			fmt.Fprintf(os.Stderr, "bmc pass %d: %d threads, %d paths, %d mutable cells, %v (grew=%v stable-locks=%v) problems=%d\n", pass, nthreads, np, len(mutable), time.Since(t0), grew, same, len(problems))
		}
		if os.Getenv("SYMGO_DEBUG") != "" {
			for i, p := range problems {
				if i < 5 {
					fmt.Fprintln(os.Stderr, "  problem:", p)
				}
			}
		}
		if !grew && same && pass > 0 {
			break
		}
		if pass == 7 {
			problems = append(problems, "mutable-cell / lock-set fixpoint did not converge in 8 passes")
		}
	}
	s := &bmcSystem{tb: ex.tb, trees: trees, cellIdx: map[string]*Cell{}, nthreads: nthreads, problems: problems, leafEnds: map[string]int{}}
	var keys []string
	for k := range cells {
		if mutable[k] {
			keys = append(keys, k)
		}
	}
	sort.Strings(keys)
	for _, k := range keys {
		s.cells = append(s.cells, cells[k])
		s.cellIdx[k] = cells[k]
	}
	var acc []accessInfo
	mset := map[string]bool{}
	var collectM func(n *TNode)
	seenM := map[*TNode]bool{}
	collectM = func(n *TNode) {
		if seenM[n] {
			return
		}
		seenM[n] = true
		if n.ev != nil && n.ev.Mutex != "" {
			mset[n.ev.Mutex] = true
		}
		if n.end != "" {
			s.leafEnds[n.end]++
		}
		for _, e := range n.edges {
			collectM(e.to)
		}
	}
	for _, tt := range trees {
		b, a := tt.mergeIsomorphic()
		if os.Getenv("SYMGO_DEBUG") != "" {
			fmt.Fprintf(os.Stderr, "thread %s: %d tree nodes -> %d DAG nodes\n", tt.name, b, a)
		}
		accessSeen = map[string]bool{}
		collectAccesses(tt.root, map[string]string{}, 0, &acc)
		collectM(tt.root)
	}
	for m := range mset {
		s.mutexes = append(s.mutexes, m)
	}
	sort.Strings(s.mutexes)
	s.prot, s.protWhy, s.writeLock = protectedCells(acc)
	s.txs = make([][]*transaction, nthreads)
	s.rootTx = make([]*transaction, nthreads)
	K := 0
	for t, tt := range trees {
		b := &txBuilder{prot: s.prot, writeLock: s.writeLock, byNode: map[*TNode]*transaction{}, tid: t, indeg: map[*TNode]int{}}
		{
			seen := map[*TNode]bool{}
			var cnt func(n *TNode)
			cnt = func(n *TNode) {
				if seen[n] {
					return
				}
				seen[n] = true
				for _, e := range n.edges {
					b.indeg[e.to]++
					cnt(e.to)
				}
			}
			cnt(tt.root)
		}
		if len(tt.root.edges) != 1 {
			return nil, fmt.Errorf("thread %s: the thread body must start with an event (got %d initial branches)", tt.name, len(tt.root.edges))
		}
		first := tt.root.edges[0].to
		if first.ev == nil {
			s.txs[t] = nil
			continue
		}
		s.rootTx[t] = b.build(first, map[string]string{})
		s.txs[t] = b.txs
		if len(b.txs) > 240 {
			return nil, fmt.Errorf("thread %s: %d transactions (limit 240)", tt.name, len(b.txs))
		}
		K += txDepth(s.rootTx[t], b.byNode, map[*transaction]int{})
	}
	s.K = K
	return s, nil
}

func (s *bmcSystem) describe() map[string]interface{} {
	ntx, nout := 0, 0
	for _, txs := range s.txs {
		ntx += len(txs)
		for _, t := range txs {
			nout += len(t.outcomes)
		}
	}
	var cellDesc []string
	for _, c := range s.cells {
		cellDesc = append(cellDesc, fmt.Sprintf("%s [%s]: %s", c.Desc, c.Kind, s.protWhy[c.Key]))
	}
	var th []map[string]interface{}
	for i, tt := range s.trees {
		th = append(th, map[string]interface{}{"thread": tt.name, "paths": tt.paths, "event_nodes": tt.nodes, "transactions": len(s.txs[i])})
	}
	return map[string]interface{}{
		"threads": th, "shared_mutable_cells": cellDesc, "mutexes": s.mutexes, "K_steps": s.K,
		"transactions": ntx, "guarded_outcomes": nout, "leaf_ends": s.leafEnds, "por_constraints": s.porConstraints,
	}
}

func (w *World) RunBMC(id string, bs BMCSpec, tier string, kfs map[string]KnownFinding) *BMCResult {
	t0 := time.Now()
	br := &BMCResult{Known: map[string]string{}, Summary: map[string]interface{}{"bmc": bs.Name, "harness": bs.Pkg + "." + bs.Fn}}
	tierN := 0
	if tier == "thorough" {
		tierN = 1
	}
	solver, err := NewSolver("z3", 60000)
	if err != nil {
		br.Inconclusive = append(br.Inconclusive, "cannot start z3: "+err.Error())
		return br
	}
	defer solver.Close()
	sys, err := w.buildBMCSystem(bs, tierN, solver)
	if err != nil {
		br.Inconclusive = append(br.Inconclusive, bs.Name+": "+err.Error())
		return br
	}
	for _, p := range sys.problems {
		br.Inconclusive = append(br.Inconclusive, bs.Name+": "+p)
	}
	for k, v := range sys.describe() {
		br.Summary[k] = v
	}
	br.Summary["tree_build_s"] = time.Since(t0).Seconds()
	for _, txs := range sys.txs {
		br.States += len(txs) * (sys.K + 1)
		for _, tx := range txs {
			br.Transitions += len(tx.outcomes) * sys.K
		}
	}
	if len(sys.problems) > 0 {
		return br
	}
	{
		nout := 0
		for _, txs := range sys.txs {
			for _, tx := range txs {
				nout += len(tx.outcomes)
			}
		}
		if os.Getenv("SYMGO_DEBUG") != "" {
			fmt.Fprintf(os.Stderr, "bmc system: K=%d outcomes=%d\n", sys.K, nout)
		}
		if nout*sys.K > 60000 {
			br.Inconclusive = append(br.Inconclusive, fmt.Sprintf("%s: transition system too large to unroll (%d guarded outcomes x %d steps); the code under test branches more than the engine's bound allows", bs.Name, nout, sys.K))
			return br
		}
	}
	base, obls := sys.encode()
	base = append(base, bmcSetupPC...)
	{
		// drop duplicate constraints (events shared by several outcomes of a transaction)
		seen := map[int]bool{}
		var dedup []*Term
		for _, b := range base {
			if !seen[b.ID] {
				seen[b.ID] = true
				dedup = append(dedup, b)
			}
		}
		base = dedup
	}
	// print the base once
	p := NewPrinter(sys.tb)
	for _, b := range base {
		p.Assert(b)
	}
	baseText := "(set-logic QF_BV)\n" + p.String()
	if d := os.Getenv("SYMGO_DUMP"); d != "" {
		os.WriteFile(filepath.Join(d, "bmc_base_"+bs.Name+".smt2"), []byte(baseText), 0o644)
	}
	scratch, _ := os.MkdirTemp("", "symgo-bmc")
	registerScratch(scratch)
	defer os.RemoveAll(scratch)
	timeout := bs.TimeoutSec
	if timeout == 0 {
		timeout = 300
		if tier == "thorough" {
			timeout = 1800
		}
	}
	var stateVars []string
	var nondetVars []*Term
	for k := 0; k <= sys.K; k++ {
		for t := 0; t < sys.nthreads; t++ {
			stateVars = append(stateVars, smtName(fmt.Sprintf("pc%d!%d", t, k)))
		}
		for _, c := range sys.cells {
			stateVars = append(stateVars, smtName(fmt.Sprintf("%s!%d", c.Key, k)))
		}
		if k < sys.K {
			stateVars = append(stateVars, smtName(fmt.Sprintf("sched!%d", k)))
		}
	}
	{
		seen := map[string]bool{}
		visited := map[*TNode]bool{}
		var walk func(n *TNode)
		walk = func(n *TNode) {
			if visited[n] {
				return
			}
			visited[n] = true
			if n.ev != nil && n.ev.Kind == "nondet" && !seen[n.ev.Var.Name] {
				seen[n.ev.Var.Name] = true
				nondetVars = append(nondetVars, n.ev.Var)
			}
			for _, e := range n.edges {
				walk(e.to)
			}
		}
		for _, tt := range sys.trees {
			walk(tt.root)
		}
	}
	type oblRes struct {
		ob    *obligation
		res   string
		dur   time.Duration
		model map[string]uint64
		out   string
	}
	if len(bs.Only) > 0 {
		var keep []*obligation
		for _, ob := range obls {
			ok := ob.kind == "unwind" || ob.kind == "reach"
			for _, p := range bs.Only {
				if strings.HasPrefix(ob.name, p) {
					ok = true
				}
			}
			if ok {
				keep = append(keep, ob)
			}
		}
		obls = keep
	}
	// (terms are built here, before the parallel section: the term table is not thread-safe)
	var ndNames []string
	var mentions []*Term
	for _, v := range nondetVars {
		// make sure the variable is declared even if no constraint mentions it
		mentions = append(mentions, sys.tb.Mention(v))
		ndNames = append(ndNames, smtName(v.Name))
	}
	for _, v := range setupVars(bmcSetupPC) {
		mentions = append(mentions, sys.tb.Mention(v))
		ndNames = append(ndNames, smtName(v.Name))
	}
	results := make([]oblRes, len(obls))
	var wg sync.WaitGroup
	// bound the number of concurrent solver processes by the formula size (z3 needs roughly 40 bytes of
	// memory per byte of SMT text on these unrollings)
	par := 16
	if est := len(baseText) * 40; est > 0 {
		if p := (24 << 30) / est; p < par {
			par = p
		}
	}
	if par < 1 {
		par = 1
	}
	sem := make(chan struct{}, par)
	for i, ob := range obls {
		wg.Add(1)
		go func(i int, ob *obligation) {
			defer wg.Done()
			sem <- struct{}{}
			defer func() { <-sem }()
			c := p.Child()
			c.Assert(ob.term)
			for _, m := range mentions {
				c.Assert(m)
			}
			text := baseText + c.String() + "(check-sat)\n"
			{
				// values of the state variables only (get-model would print every definition)
				text += "(get-value (" + strings.Join(append(append([]string{}, stateVars...), ndNames...), " ") + "))\n"
			}
			if d := os.Getenv("SYMGO_DUMP"); d != "" {
				os.WriteFile(filepath.Join(d, "bmc_"+bs.Name+"_"+sanitize(ob.name)+".smt2"), []byte(text), 0o644)
			}
			r := RunOneShot(bmcSolverKind(), text, timeout, scratch)
			or := oblRes{ob: ob, res: r.Res, dur: r.Dur, out: r.Out}
			if r.Res == "sat" {
				or.model = map[string]uint64{}
				parseValues(r.Out, or.model)
			}
			results[i] = or
		}(i, ob)
	}
	wg.Wait()
	var oblSummary []map[string]interface{}
	witnessReplays := 0
	for _, r := range results {
		bmcStats.NQ++
		bmcStats.Dur += r.dur
		switch r.res {
		case "sat":
			bmcStats.NSat++
		case "unsat":
			bmcStats.NUnsat++
		default:
			bmcStats.NUnk++
		}
		br.Obligations++
		br.ObligationNames = append(br.ObligationNames, r.ob.name)
		entry := map[string]interface{}{"obligation": r.ob.name, "kind": r.ob.kind, "expected": r.ob.expect, "solver": r.res, "solver_s": r.dur.Seconds()}
		switch {
		case r.res != "sat" && r.res != "unsat":
			first := strings.SplitN(r.out, "\n", 2)[0]
			br.Inconclusive = append(br.Inconclusive, fmt.Sprintf("%s: obligation %q: solver %s (%s)", bs.Name, r.ob.name, r.res, first))
		case r.ob.expect == r.res:
			br.Discharged++
			if r.res == "sat" && len(br.Samples) < 3 {
				br.Samples = append(br.Samples, map[string]interface{}{"witness_for": r.ob.name, "schedule": sys.traceOf(r.model)})
			}
			// translator validation: the witness schedule is forced on the real code and must reach the
			// same marker without blocking (one witness per system in the quick tier, all in thorough)
			if r.res == "sat" && r.ob.kind == "reach" && os.Getenv("SYMGO_NO_BMC_REPLAY") == "" && (tier == "thorough" || witnessReplays == 0) {
				witnessReplays++
				dir := filepath.Join(verifDir(), "replays", id, sanitize(bs.Name+"-witness-"+r.ob.name))
				os.RemoveAll(dir)
				os.MkdirAll(dir, 0o755)
				os.WriteFile(filepath.Join(dir, "trace.txt"), []byte(strings.Join(sys.traceOf(r.model), "\n")+"\n"), 0o644)
				_, out := w.ReplayBMC(id, bs, sys, r.ob, r.model, dir)
				marker := strings.TrimPrefix(r.ob.name, "reach:")
				good := strings.Contains(out, "REPLAY-REACH "+marker) && !strings.Contains(out, "no-deadlock") && !strings.Contains(out, "REPLAY-NOTE") && !strings.Contains(out, "DATA RACE")
				entry["witness_replayed_natively"] = good
				if good {
					br.Replayed++
				} else {
					br.Inconclusive = append(br.Inconclusive, fmt.Sprintf("%s: the witness schedule for %q could not be followed by the real code (encoder fault or replay shim limitation) replay=%s", bs.Name, r.ob.name, dir))
				}
			}
		case r.ob.expect == "sat":
			br.Inconclusive = append(br.Inconclusive, fmt.Sprintf("%s: vacuous: witness %q is unreachable", bs.Name, r.ob.name))
		case r.ob.kind == "unwind":
			br.Inconclusive = append(br.Inconclusive, fmt.Sprintf("%s: %q failed (shared-slice bound %d, recursion bound %d or re-park bound %d too small, or a branch the encoder pruned is reachable)", bs.Name, r.ob.name, bmcMaxSeq, bmcMaxRecursion, bmcMaxParks))
		default:
			// a property obligation is satisfiable: counterexample schedule
			trace := sys.traceOf(r.model)
			dir := filepath.Join(verifDir(), "replays", id, sanitize(bs.Name+"-"+r.ob.name))
			os.RemoveAll(dir)
			os.MkdirAll(dir, 0o755)
			os.WriteFile(filepath.Join(dir, "trace.txt"), []byte(strings.Join(trace, "\n")+"\n"), 0o644)
			what := fmt.Sprintf("%s: %s violated (%s); schedule: %s", bs.Name, r.ob.name, r.ob.detail, strings.Join(trace, " | "))
			entry["counterexample"] = trace
			if os.Getenv("SYMGO_NO_BMC_REPLAY") == "" {
				ok, _ := w.ReplayBMC(id, bs, sys, r.ob, r.model, dir)
				entry["reproduced_natively"] = ok
				if ok {
					br.Replayed++
					br.Violations = append(br.Violations, BMCViolation{Replay: dir, What: what + " [reproduced natively under the forced schedule]"})
				} else {
					br.Inconclusive = append(br.Inconclusive, fmt.Sprintf("%s: obligation %q is satisfiable but the schedule did not reproduce natively (encoder/stub fault, or a schedule the native shim cannot force) replay=%s", bs.Name, r.ob.name, dir))
				}
			} else {
				br.Violations = append(br.Violations, BMCViolation{Replay: dir, What: what})
			}
		}
		oblSummary = append(oblSummary, entry)
	}
	br.Summary["obligations"] = oblSummary
	br.Summary["wall_s"] = time.Since(t0).Seconds()
	for _, tt := range sys.trees {
		br.Paths += tt.paths
	}
	return br
}

// parseModel reads (define-fun name () sort value) lines of z3's get-model output.
func parseModel(out string) map[string]uint64 {
	m := map[string]uint64{}
	toks := strings.Fields(strings.NewReplacer("(", " ( ", ")", " ) ").Replace(out))
	for i := 0; i+1 < len(toks); i++ {
		if toks[i] != "define-fun" {
			continue
		}
		name := strings.Trim(toks[i+1], "|")
		// find the value: last token before the closing paren of this define-fun
		depth := 1
		j := i + 2
		var last string
		for ; j < len(toks) && depth > 0; j++ {
			switch toks[j] {
			case "(":
				depth++
			case ")":
				depth--
			default:
				last = toks[j]
			}
		}
		switch {
		case last == "true":
			m[name] = 1
		case last == "false":
			m[name] = 0
		case strings.HasPrefix(last, "#x"):
			fmt.Sscanf(last[2:], "%x", new(uint64))
			var v uint64
			fmt.Sscanf(last[2:], "%x", &v)
			m[name] = v
		case strings.HasPrefix(last, "#b"):
			var v uint64
			for _, ch := range last[2:] {
				v = v<<1 | uint64(ch-'0')
			}
			m[name] = v
		}
	}
	return m
}

// traceOf renders the schedule of a model: which thread fired which transaction at each step.
func (s *bmcSystem) traceOf(model map[string]uint64) []string {
	var out []string
	for k := 0; k < s.K; k++ {
		changed := false
		var parts []string
		for t := 0; t < s.nthreads; t++ {
			a, b := model[fmt.Sprintf("pc%d!%d", t, k)], model[fmt.Sprintf("pc%d!%d", t, k+1)]
			if a != b {
				changed = true
				desc := "?"
				for _, tx := range s.txs[t] {
					if uint64(tx.id) == a {
						desc = tx.first.Kind
						if tx.first.Cell != nil {
							desc += " " + tx.first.Cell.Desc
						}
						if tx.first.Mutex != "" {
							desc += " " + tx.first.Mutex
						}
						if tx.first.Name != "" {
							desc += " " + tx.first.Name
						}
						if tx.first.Where != "" {
							desc += " in " + tx.first.Where
						}
					}
				}
				parts = append(parts, fmt.Sprintf("%s: %s (tx %d->%d)", s.trees[t].name, desc, a, b))
			}
		}
		if changed {
			var cs []string
			for _, c := range s.cells {
				v0, v1 := model[fmt.Sprintf("%s!%d", c.Key, k)], model[fmt.Sprintf("%s!%d", c.Key, k+1)]
				if v0 != v1 {
					cs = append(cs, fmt.Sprintf("%s=%d", c.Desc, int64(v1)))
				}
			}
			line := fmt.Sprintf("step %d: %s", k, strings.Join(parts, " + "))
			if len(cs) > 0 {
				line += "  {" + strings.Join(cs, ", ") + "}"
			}
			out = append(out, line)
		}
	}
	return out
}

// bmcSolverKind: z3 5.1 (z3-new) preprocesses the large unrolled formulas several times faster than
// 4.8.12 in this sandbox; SYMGO_BMC_SOLVER overrides (z3 | z3-new | cvc5).
func bmcSolverKind() string {
	if k := os.Getenv("SYMGO_BMC_SOLVER"); k != "" {
		return k
	}
	return "z3-new"
}

// setupVars: the free variables of the setup-phase path condition (configuration inputs of the harness).
func setupVars(pc []*Term) []*Term {
	seen := map[int]bool{}
	var out []*Term
	var walk func(t *Term)
	walk = func(t *Term) {
		if seen[t.ID] {
			return
		}
		seen[t.ID] = true
		if t.Op == OpVar {
			out = append(out, t)
		}
		for _, a := range t.Args {
			walk(a)
		}
	}
	for _, t := range pc {
		walk(t)
	}
	return out
}
