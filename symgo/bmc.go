package main

import "time"

// BMC of concurrent harnesses under a symbolic scheduler (see bmc_*.go).

type BMCSpec struct {
	Name string
	Pkg  string
	Fn   string
	Init []string
	Tier string
	K    int
}

type BMCViolation struct {
	Replay string
	What   string
}

type BMCResult struct {
	Summary         map[string]interface{}
	Inconclusive    []string
	Known           map[string]string
	Violations      []BMCViolation
	Paths           int
	Obligations     int
	Discharged      int
	ObligationNames []string
	Samples         []interface{}
}

var bmcStats struct {
	NQ, NSat, NUnsat, NUnk int
	Dur                    time.Duration
}

func (w *World) RunBMC(id string, bs BMCSpec, tier string, kfs map[string]KnownFinding) *BMCResult {
	return &BMCResult{Summary: map[string]interface{}{"bmc": bs.Name, "status": "not implemented"}, Inconclusive: []string{"BMC not implemented: " + bs.Name}}
}
