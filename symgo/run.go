package main

// Driver: loads /repo + harness overlay, explores all paths of a harness function
// in parallel (one solver process per worker), aggregates assertion verdicts.

import (
	"fmt"
	"go/ast"
	"os"
	"path/filepath"
	"sort"
	"strings"
	"sync"
	"sync/atomic"
	"time"
	"unicode"

	"golang.org/x/tools/go/ssa"
)

func simpleFold(r rune) rune { return unicode.SimpleFold(r) }

var pikePkgs = []string{"cache", "server", "compress", "location", "upstream", "config", "store", "util", "log"}
var donorPkgs = []string{"container/list", "github.com/golang/groupcache/lru", "github.com/vicanso/elton", "github.com/vicanso/upstream", "go.uber.org/atomic", "github.com/vicanso/hes"}

type World struct {
	ld      *Loaded
	hooks   map[string]*ssa.Function
	LoadDur time.Duration
	Repo    string
	Harness string
	StopOnViolation bool
}

func harnessOverlay(harnessDir string) (map[string][]string, error) {
	ov := map[string][]string{}
	ents, err := os.ReadDir(harnessDir)
	if err != nil {
		return nil, err
	}
	for _, e := range ents {
		if !e.IsDir() || e.Name() == "rt" {
			continue
		}
		files, _ := filepath.Glob(filepath.Join(harnessDir, e.Name(), "*.go"))
		sort.Strings(files)
		for _, f := range files {
			if strings.HasSuffix(f, "_native.go") || strings.HasSuffix(f, "_test.go") {
				continue
			}
			ov[e.Name()] = append(ov[e.Name()], f)
		}
	}
	return ov, nil
}

func LoadWorld(repo, harnessDir string) (*World, error) {
	t0 := time.Now()
	ov, err := harnessOverlay(harnessDir)
	if err != nil {
		return nil, err
	}
	// the nondet runtime declarations are generated per package that has harness files
	tmpl, err := os.ReadFile(filepath.Join(harnessDir, "rt", "verif_rt.go.tmpl"))
	if err != nil {
		return nil, err
	}
	tmpDir, err := os.MkdirTemp("", "symgo-rt")
	if err != nil {
		return nil, err
	}
	defer os.RemoveAll(tmpDir)
	for pkg := range ov {
		pkgName := filepath.Base(pkg)
		f := filepath.Join(tmpDir, "verif_rt_"+pkgName+".go")
		os.WriteFile(f, []byte(strings.Replace(string(tmpl), "package PKG", "package "+pkgName, 1)), 0o644)
		ov[pkg] = append(ov[pkg], f)
	}
	ld, err := Load(repo, pikePkgs, ov, donorPkgs)
	if err != nil {
		return nil, err
	}
	w := &World{ld: ld, hooks: map[string]*ssa.Function{}, Repo: repo, Harness: harnessDir}
	// hooks:  //verif:hook <full function name>
	for path, files := range ld.Files {
		sp := ld.Src[path]
		for _, f := range files {
			for _, d := range f.Decls {
				fd, ok := d.(*ast.FuncDecl)
				if !ok || fd.Doc == nil {
					continue
				}
				for _, c := range fd.Doc.List {
					if strings.HasPrefix(c.Text, "//verif:hook ") {
						target := strings.TrimSpace(strings.TrimPrefix(c.Text, "//verif:hook "))
						hf := sp.Func(fd.Name.Name)
						if hf == nil {
							return nil, fmt.Errorf("hook function %s not found", fd.Name.Name)
						}
						w.hooks[target] = hf
					}
				}
			}
		}
	}
	w.LoadDur = time.Since(t0)
	return w, nil
}

type HarnessResult struct {
	Name      string
	Paths     int
	EndCounts map[string]int
	// per assertion name
	Asserts  map[string]*AssertAgg
	Reached  map[string]int
	Unsup    []string
	Dur      time.Duration
	Steps    int
	Notes    map[string]int
	Events   map[string]int
	Samples  []string
	MaxDepth int
	SampleInputs []SampleInput
	Witnesses    []Witness // candidate path witnesses for the native translator validation
	witSig       map[string]int
	Funcs         map[string]bool // pike functions entered by any explored path
	NotComparable int // complete paths that cannot be compared with a native run
	Stopped      bool // exploration was cut short after the first violation
}

type AssertAgg struct {
	Proved, Trivial, Violated, Unknown, KnownN int
	Models                                    []map[string]uint64
	Details                                   []string
	Cex                                       []Cex
	Known                                     map[string]int
	KnownCex                                  map[string][]Cex
}

type SampleInput struct {
	Prefix []int
	Inputs map[string]uint64
}

type workItem struct{ prefix []int }

func (w *World) RunHarness(pkg, fn string, opts *RunOpts, pool *SolverPool, workers int, maxPaths int) (*HarnessResult, error) {
	sp := w.ld.Src[pikeMod+"/"+pkg]
	if sp == nil {
		return nil, fmt.Errorf("package %s not loaded", pkg)
	}
	hf := sp.Func(fn)
	if hf == nil {
		why := ""
		for f, msg := range w.ld.Dropped {
			if strings.Contains(f, "/"+pkg+"/") {
				why += fmt.Sprintf("; harness file %s does not compile against the current tree: %s", filepath.Base(f), msg)
			}
		}
		return nil, fmt.Errorf("harness %s.%s not available%s", pkg, fn, why)
	}
	t0 := time.Now()
	hr := &HarnessResult{Name: pkg + "." + fn, EndCounts: map[string]int{}, Asserts: map[string]*AssertAgg{}, Reached: map[string]int{}, Notes: map[string]int{}, Events: map[string]int{}}
	var mu sync.Mutex
	queue := []workItem{{nil}}
	inflight := 0
	cond := sync.NewCond(&mu)
	var wg sync.WaitGroup
	var fatal error
	var abort int32
	for i := 0; i < workers; i++ {
		wg.Add(1)
		go func() {
			defer wg.Done()
			solver := pool.New()
			defer solver.Close() // (its counters stay readable for the pool's statistics)
			ex := NewExec(w.ld, solver, w.hooks, opts)
			ex.abort = &abort
			ex.emit = func(np []int) {
				mu.Lock()
				queue = append(queue, workItem{np})
				mu.Unlock()
				cond.Broadcast()
			}
			for {
				mu.Lock()
				for len(queue) == 0 && inflight > 0 && fatal == nil {
					cond.Wait()
				}
				if fatal != nil || abort != 0 || (len(queue) == 0 && inflight == 0) {
					mu.Unlock()
					cond.Broadcast()
					return
				}
				it := queue[len(queue)-1]
				queue = queue[:len(queue)-1]
				inflight++
				mu.Unlock()

				var res *PathResult
				func() {
					defer func() {
						if r := recover(); r != nil {
							mu.Lock()
							if fatal == nil {
								fatal = fmt.Errorf("executor crash on prefix %v: %v", it.prefix, r)
							}
							mu.Unlock()
						}
					}()
					res = ex.RunPath(hf, it.prefix)
				}()

				mu.Lock()
				inflight--
				if res != nil {
					hr.Paths++
					if os.Getenv("SYMGO_DEBUG") != "" {
						fmt.Fprintf(os.Stderr, "path %d end=%s steps=%d prefix=%v queue=%d nq=%d t=%v %s\n", hr.Paths, res.End, res.Steps, it.prefix, len(queue), solver.NQ, solver.Time, res.Unsup)
					}
					hr.Steps += res.Steps
					hr.EndCounts[res.End]++
					if res.End == "unsupported" {
						hr.Unsup = append(hr.Unsup, res.Unsup)
					}
					for _, a := range res.Asserts {
						ag := hr.Asserts[a.Name]
						if ag == nil {
							ag = &AssertAgg{}
							hr.Asserts[a.Name] = ag
						}
						switch a.Status {
						case "proved":
							ag.Proved++
						case "trivially-true":
							ag.Trivial++
						case "violated":
							ag.Violated++
							if w.StopOnViolation && hr.Paths > 0 {
								atomic.StoreInt32(&abort, 1)
								hr.Stopped = true
							}
							if len(ag.Models) < 5 {
								ag.Models = append(ag.Models, a.Model)
								ag.Details = append(ag.Details, a.Detail)
								ag.Cex = append(ag.Cex, Cex{Model: a.Model, Prefix: a.Prefix, Detail: a.Detail})
							}
						default:
							if strings.HasPrefix(a.Status, "known:") {
								kid := strings.TrimPrefix(a.Status, "known:")
								ag.KnownN++
								if ag.Known == nil {
									ag.Known = map[string]int{}
									ag.KnownCex = map[string][]Cex{}
								}
								ag.Known[kid]++
								if len(ag.KnownCex[kid]) < 3 {
									ag.KnownCex[kid] = append(ag.KnownCex[kid], Cex{Model: a.Model, Prefix: a.Prefix, Detail: a.Detail})
								}
								break
							}
							ag.Unknown++
							if len(ag.Details) < 5 {
								ag.Details = append(ag.Details, a.Detail)
							}
						}
					}
					for f := range res.Funcs {
						if hr.Funcs == nil {
							hr.Funcs = map[string]bool{}
						}
						hr.Funcs[f] = true
					}
					for _, r := range res.Reached {
						hr.Reached[r]++
					}
					for _, n := range res.Notes {
						hr.Notes[n]++
					}
					for _, n := range res.Events {
						hr.Events[n]++
					}
					if len(hr.Samples) < 3 && res.End == "return" {
						hr.Samples = append(hr.Samples, fmt.Sprintf("decisions=%v", res.Prefix))
					}
					if res.End == "return" && res.NotComparable != "" {
						hr.NotComparable++
					}
					if res.End == "return" && res.Inputs != nil && res.NotComparable == "" && len(hr.Witnesses) < 200 {
						clean := true
						for _, a := range res.Asserts {
							if a.Status != "proved" && a.Status != "trivially-true" {
								clean = false
							}
						}
						sig := strings.Join(res.Reached, ",")
						if hr.witSig == nil {
							hr.witSig = map[string]int{}
						}
						if clean && hr.witSig[sig] < 3 {
							hr.witSig[sig]++
							hr.Witnesses = append(hr.Witnesses, Witness{Prefix: res.Prefix, Inputs: res.Inputs, Reached: append([]string{}, res.Reached...)})
						}
					}
					if len(hr.SampleInputs) < 2 && res.End == "return" && res.Inputs != nil {
						hr.SampleInputs = append(hr.SampleInputs, SampleInput{Prefix: res.Prefix, Inputs: res.Inputs})
					}
					for _, np := range res.NewPref {
						queue = append(queue, workItem{np})
					}
					if maxPaths > 0 && hr.Paths+len(queue) > maxPaths && fatal == nil {
						fatal = fmt.Errorf("path budget %d exceeded", maxPaths)
					}
				}
				mu.Unlock()
				cond.Broadcast()
			}
		}()
	}
	wg.Wait()
	hr.Dur = time.Since(t0)
	if fatal != nil {
		return hr, fatal
	}
	return hr, nil
}
