package main

// A structural obligation for C17's "saving then reading returns the same configuration": the YAML
// library itself cannot be encoded, but which fields it is allowed to see is pike's own code (struct
// tags).  Every field of a pike/config struct that the rest of pike READS (the apply path: the
// converters and registries in cache, compress, location, upstream, server, and main) must be
// persisted under a key of its own: its yaml tag is not "-" and no two fields of one struct share a
// key.  The set of consumed fields is computed from the SSA of the current tree, not listed by hand.

import (
	"fmt"
	"go/types"
	"reflect"
	"sort"
	"strings"

	"golang.org/x/tools/go/ssa"
	"golang.org/x/tools/go/ssa/ssautil"
)

func yamlKey(tag string, fieldName string) string {
	v, ok := reflect.StructTag(strings.TrimSpace(tag)).Lookup("yaml")
	if !ok {
		return strings.ToLower(fieldName)
	}
	k := strings.Split(v, ",")[0]
	if k == "" {
		return strings.ToLower(fieldName)
	}
	return k
}

// configFieldsNotPersisted returns "Struct.Field: reason" for every violation.
func (ld *Loaded) configFieldsNotPersisted() []string {
	cfgPath := pikeMod + "/config"
	consumed := map[string]bool{} // "Struct.Field"
	structs := map[string]*types.Struct{}
	note := func(t types.Type, idx int) {
		if p, ok := t.Underlying().(*types.Pointer); ok {
			t = p.Elem()
		}
		n, ok := t.(*types.Named)
		if !ok || n.Obj().Pkg() == nil || n.Obj().Pkg().Path() != cfgPath {
			return
		}
		st, ok := n.Underlying().(*types.Struct)
		if !ok {
			return
		}
		structs[n.Obj().Name()] = st
		consumed[n.Obj().Name()+"."+st.Field(idx).Name()] = true
	}
	// functions reachable (static calls, closures) from the entry points main.update uses to apply a configuration
	entries := [][2]string{{"compress", "Reset"}, {"cache", "ResetDispatchers"}, {"upstream", "ResetWithOnStats"}, {"upstream", "Reset"}, {"location", "Reset"}, {"server", "Reset"}}
	reach := map[*ssa.Function]bool{}
	var visit func(fn *ssa.Function)
	visit = func(fn *ssa.Function) {
		if fn == nil || reach[fn] || fn.Blocks == nil || fn.Pkg == nil || !strings.HasPrefix(fn.Pkg.Pkg.Path(), pikeMod) {
			return
		}
		if pos := fn.Pos(); pos.IsValid() && strings.Contains(ld.Fset.Position(pos).Filename, "zz_") {
			return // harness code
		}
		reach[fn] = true
		for _, a := range fn.AnonFuncs {
			visit(a)
		}
		for _, b := range fn.Blocks {
			for _, ins := range b.Instrs {
				if c, ok := ins.(ssa.CallInstruction); ok {
					visit(c.Common().StaticCallee())
				}
			}
		}
	}
	for _, e := range entries {
		if sp := ld.Src[pikeMod+"/"+e[0]]; sp != nil {
			visit(sp.Func(e[1]))
		}
	}
	_ = ssautil.AllFunctions
	{
		for fn := range reach {
			for _, b := range fn.Blocks {
				for _, ins := range b.Instrs {
					switch x := ins.(type) {
					case *ssa.Field:
						note(x.X.Type(), x.Field)
					case *ssa.FieldAddr:
						// a read: the address is loaded from (not only stored to)
						read := false
						if refs := x.Referrers(); refs != nil {
							for _, r := range *refs {
								if u, ok := r.(*ssa.UnOp); ok && u.X == x {
									read = true
								}
							}
						}
						if read {
							note(x.X.Type(), x.Field)
						}
					}
				}
			}
		}
	}
	var out []string
	for k := range consumed {
		parts := strings.SplitN(k, ".", 2)
		st := structs[parts[0]]
		for i := 0; i < st.NumFields(); i++ {
			if st.Field(i).Name() != parts[1] {
				continue
			}
			if yamlKey(st.Tag(i), parts[1]) == "-" {
				out = append(out, fmt.Sprintf("%s: read by the apply path but excluded from the saved configuration (yaml:\"-\")", k))
			}
		}
	}
	for name, st := range structs {
		seen := map[string]string{}
		for i := 0; i < st.NumFields(); i++ {
			k := yamlKey(st.Tag(i), st.Field(i).Name())
			if k == "-" {
				continue
			}
			if other, dup := seen[k]; dup {
				out = append(out, fmt.Sprintf("%s.%s: shares the yaml key %q with %s", name, st.Field(i).Name(), k, other))
			}
			seen[k] = st.Field(i).Name()
		}
	}
	sort.Strings(out)
	return out
}
