package main

// Symbolic model of Go's regexp for the patterns pike uses.  The pattern literal
// is taken from the SSA constant of the real call and compiled with the real
// regexp/syntax, so flags such as (?i) are honoured.  Inputs are byte vectors of
// concrete length with symbolic ASCII bytes.

import (
	"go/types"
	"fmt"
	"regexp"
	"regexp/syntax"

	"golang.org/x/tools/go/ssa"
)

type rxProg struct {
	pat  string
	prog *syntax.Prog
	re   *syntax.Regexp
	err  error
}

func (ex *Exec) rxCompile(pat string) *rxProg {
	if p, ok := ex.regexMemo[pat]; ok {
		return p
	}
	p := &rxProg{pat: pat}
	re, err := syntax.Parse(pat, syntax.Perl)
	if err != nil {
		p.err = err
	} else {
		p.re = re.Simplify()
		p.prog, p.err = syntax.Compile(p.re)
	}
	ex.regexMemo[pat] = p
	return p
}

func intrRegexpCompile(ex *Exec, fn *ssa.Function, a []Value, fr *Frame) Value {
	s := a[0].(*StringV)
	pat, ok := ex.goString(s)
	isMust := fn.Name() == "MustCompile"
	if !ok {
		// symbolic pattern (decoded from a record): abstract regexp identified by its source bytes
		o := ex.newObject(nil, StructV{}, "regexp")
		ex.ghost[fmt.Sprintf("rxsrc:%d", o.ID)] = s
		p := &Pointer{Obj: o}
		// regexp.Compile may fail on arbitrary bytes: free choice (MustCompile panics then)
		if ex.branch(ex.freshVar("regexp.Compile.ok", 0)) {
			if isMust {
				return p
			}
			return TupleV{p, &IfaceV{}}
		}
		// the failing outcome is explored for patterns that really do not parse, so that the
		// counterexample replays: any pattern starting with ')' is a syntax error; the empty pattern
		// always compiles
		if s.Arr == nil {
			panic(pathEnd{"assume-false"})
		}
		bad := ex.tb.And(ex.tb.Cmp(OpSle, ex.i64(1), s.Len), ex.tb.Eq(ex.readAt(s.Arr, s.Off), ex.tb.BV(8, ')')))
		if !ex.branch(bad) {
			panic(pathEnd{"assume-false"})
		}
		if isMust {
			ex.goPanicf("regexp: Compile of a pattern that does not parse (MustCompile on data)")
		}
		return TupleV{&Pointer{}, ex.libError("regexp.syntaxError")}
	}
	p := ex.rxCompile(pat)
	if p.err != nil {
		if isMust {
			ex.goPanicf("regexp: Compile(%q): %v", pat, p.err)
		}
		return TupleV{&Pointer{}, ex.libError("regexp.syntaxError")}
	}
	o := ex.newObject(nil, StructV{}, "regexp")
	o.Name = pat
	ex.ghost[fmt.Sprintf("rx:%d", o.ID)] = p
	ptr := &Pointer{Obj: o}
	if isMust {
		return ptr
	}
	return TupleV{ptr, &IfaceV{}}
}

func (ex *Exec) rxOf(v Value) (*rxProg, *StringV) {
	p := v.(*Pointer)
	if p.IsNil() {
		ex.goPanicf("nil pointer dereference (*regexp.Regexp)")
	}
	if r, ok := ex.ghost[fmt.Sprintf("rx:%d", p.Obj.ID)].(*rxProg); ok {
		return r, nil
	}
	if s, ok := ex.ghost[fmt.Sprintf("rxsrc:%d", p.Obj.ID)].(*StringV); ok {
		return nil, s
	}
	panic(unsupported("regexp value of unknown origin"))
}

func intrRegexpString(ex *Exec, fn *ssa.Function, a []Value, fr *Frame) Value {
	r, src := ex.rxOf(a[0])
	if r != nil {
		return ex.constStr(r.pat)
	}
	return src
}

func (ex *Exec) requireASCII(bs []*Term, what string) {
	tb := ex.tb
	for _, b := range bs {
		c := tb.Cmp(OpUlt, b, tb.BV(8, 0x80))
		if c.IsTrue() {
			continue
		}
		if !ex.branch(c) {
			panic(unsupported(what + " on non-ASCII symbolic input"))
		}
	}
}

func runeMatch(ex *Exec, inst *syntax.Inst, b *Term) *Term {
	tb := ex.tb
	switch inst.Op {
	case syntax.InstRuneAny:
		return tb.True
	case syntax.InstRuneAnyNotNL:
		return tb.Ne(b, tb.BV(8, '\n'))
	case syntax.InstRune1:
		r := inst.Rune[0]
		var alts []*Term
		if r < 0x80 {
			alts = append(alts, tb.Eq(b, tb.BV(8, uint64(r))))
		}
		if syntax.Flags(inst.Arg)&syntax.FoldCase != 0 {
			for r1 := foldNext(r); r1 != r; r1 = foldNext(r1) {
				if r1 < 0x80 {
					alts = append(alts, tb.Eq(b, tb.BV(8, uint64(r1))))
				}
			}
		}
		return tb.Or(alts...)
	case syntax.InstRune:
		rs := inst.Rune
		if len(rs) == 1 {
			// single rune possibly with fold flag
			r := rs[0]
			var alts []*Term
			if r < 0x80 {
				alts = append(alts, tb.Eq(b, tb.BV(8, uint64(r))))
			}
			if syntax.Flags(inst.Arg)&syntax.FoldCase != 0 {
				for r1 := foldNext(r); r1 != r; r1 = foldNext(r1) {
					if r1 < 0x80 {
						alts = append(alts, tb.Eq(b, tb.BV(8, uint64(r1))))
					}
				}
			}
			return tb.Or(alts...)
		}
		var alts []*Term
		for i := 0; i+1 < len(rs); i += 2 {
			lo, hi := rs[i], rs[i+1]
			if lo >= 0x80 {
				continue
			}
			if hi >= 0x80 {
				hi = 0x7f
			}
			if lo == hi {
				alts = append(alts, tb.Eq(b, tb.BV(8, uint64(lo))))
			} else {
				alts = append(alts, tb.And(tb.Cmp(OpUle, tb.BV(8, uint64(lo)), b), tb.Cmp(OpUle, b, tb.BV(8, uint64(hi)))))
			}
		}
		return tb.Or(alts...)
	}
	panic(unsupported("regexp instruction " + inst.Op.String()))
}

func foldNext(r rune) rune {
	// unicode.SimpleFold without importing unicode tables twice
	return simpleFold(r)
}

// rxMatch: does the program match somewhere in bs (unanchored search)?  Thompson
// simulation with Boolean state sets.
func (ex *Exec) rxMatch(p *rxProg, bs []*Term) *Term {
	tb := ex.tb
	prog := p.prog
	n := len(bs)
	ninst := len(prog.Inst)
	// active[pc] at current position: Bool term
	var matched []*Term
	// closure adds pc (and its epsilon successors) with condition c at position pos
	var addClosure func(set []*Term, pc int, c *Term, pos int, seen map[int]bool)
	addClosure = func(set []*Term, pc int, c *Term, pos int, seen map[int]bool) {
		if c.IsFalse() {
			return
		}
		inst := &prog.Inst[pc]
		switch inst.Op {
		case syntax.InstAlt, syntax.InstAltMatch:
			addClosure(set, int(inst.Out), c, pos, seen)
			addClosure(set, int(inst.Arg), c, pos, seen)
		case syntax.InstCapture, syntax.InstNop:
			addClosure(set, int(inst.Out), c, pos, seen)
		case syntax.InstEmptyWidth:
			cond := tb.True
			e := syntax.EmptyOp(inst.Arg)
			if e&syntax.EmptyBeginText != 0 && pos != 0 {
				cond = tb.False
			}
			if e&syntax.EmptyEndText != 0 && pos != n {
				cond = tb.False
			}
			if e&syntax.EmptyBeginLine != 0 {
				if pos != 0 {
					cond = tb.And(cond, tb.Eq(bs[pos-1], tb.BV(8, '\n')))
				}
			}
			if e&syntax.EmptyEndLine != 0 {
				if pos != n {
					cond = tb.And(cond, tb.Eq(bs[pos], tb.BV(8, '\n')))
				}
			}
			if e&(syntax.EmptyWordBoundary|syntax.EmptyNoWordBoundary) != 0 {
				panic(unsupported("regexp word boundary"))
			}
			addClosure(set, int(inst.Out), tb.And(c, cond), pos, seen)
		case syntax.InstFail:
		default:
			set[pc] = tb.Or(set[pc], c)
		}
	}
	cur := make([]*Term, ninst)
	for i := range cur {
		cur[i] = tb.False
	}
	for pos := 0; pos <= n; pos++ {
		// unanchored: a new thread starts at every position
		addClosure(cur, prog.Start, tb.True, pos, nil)
		next := make([]*Term, ninst)
		for i := range next {
			next[i] = tb.False
		}
		for pc := 0; pc < ninst; pc++ {
			c := cur[pc]
			if c.IsFalse() {
				continue
			}
			inst := &prog.Inst[pc]
			switch inst.Op {
			case syntax.InstMatch:
				matched = append(matched, c)
			case syntax.InstRune, syntax.InstRune1, syntax.InstRuneAny, syntax.InstRuneAnyNotNL:
				if pos < n {
					addClosure(next, int(inst.Out), tb.And(c, runeMatch(ex, inst, bs[pos])), pos+1, nil)
				}
			}
		}
		cur = next
	}
	return tb.Or(matched...)
}

func intrRegexpMatchString(ex *Exec, fn *ssa.Function, a []Value, fr *Frame) Value {
	r, src := ex.rxOf(a[0])
	s := a[1].(*StringV)
	if r == nil {
		// abstract regexp (restored from a record): uninterpreted predicate over (pattern id, input id)
		_ = src
		return ex.freshVar("regexp.match", 0)
	}
	if gs, ok := ex.goString(s); ok {
		return ex.tb.Bool(regexp.MustCompile(r.pat).MatchString(gs))
	}
	bs := ex.strBytes(s)
	ex.requireASCII(bs, "regexp.MatchString")
	return ex.rxMatch(r, bs)
}

// FindStringSubmatch is supported for patterns of the shape  <fixed-length prefix of
// single-character classes> ( <class>+ )  — e.g. `s-maxage=(\d+)`, with or without (?i).
// rxSubmatch is the common core of FindStringSubmatch / FindStringSubmatchIndex for the pattern
// shape  c1..cL (C+) : found=false, or the (concretised) match position, prefix length and capture length.
func (ex *Exec) rxSubmatch(r *rxProg, s *StringV, what string) (found bool, start, L, glen int) {
	tb := ex.tb
	prefix, class, ok := rxPrefixClassShape(r.re)
	if !ok {
		panic(unsupported(what + ": pattern shape not supported: " + r.pat))
	}
	bs := ex.strBytes(s)
	ex.requireASCII(bs, "regexp."+what)
	n := len(bs)
	L = len(prefix)
	inClass := func(re *syntax.Regexp, b *Term) *Term { return classMatch(ex, re, b) }
	// matchAt[p]: prefix matches at p and bs[p+L] is in the class
	matchAt := make([]*Term, n+1)
	for p := 0; p <= n; p++ {
		if p+L+1 > n {
			matchAt[p] = tb.False
			continue
		}
		conj := []*Term{}
		for j := 0; j < L; j++ {
			conj = append(conj, inClass(prefix[j], bs[p+j]))
		}
		conj = append(conj, inClass(class, bs[p+L]))
		matchAt[p] = tb.And(conj...)
	}
	if !ex.branch(tb.Or(matchAt...)) {
		return false, 0, L, 0
	}
	// leftmost match position
	st := ex.i64(0)
	for p := n; p >= 0; p-- {
		st = tb.Ite(matchAt[p], ex.i64(int64(p)), st)
	}
	// run[q]: length of the maximal class run starting at q
	run := make([]*Term, n+1)
	run[n] = ex.i64(0)
	for q := n - 1; q >= 0; q-- {
		run[q] = tb.Ite(inClass(class, bs[q]), tb.Add(run[q+1], ex.i64(1)), ex.i64(0))
	}
	// fork on the match position and the length of the captured run: every later step
	// (strconv.Atoi, comparisons) then works on concrete lengths
	start = ex.concInt(st, "regexp match position")
	gl := ex.i64(0)
	for q := n; q >= 0; q-- {
		gl = tb.Ite(tb.Eq(ex.i64(int64(start+L)), ex.i64(int64(q))), run[q], gl)
	}
	glen = ex.concInt(gl, "regexp capture length")
	return true, start, L, glen
}

func intrRegexpFindStringSubmatch(ex *Exec, fn *ssa.Function, a []Value, fr *Frame) Value {
	tb := ex.tb
	r, _ := ex.rxOf(a[0])
	if r == nil {
		panic(unsupported("FindStringSubmatch on abstract regexp"))
	}
	s := a[1].(*StringV)
	if gs, ok := ex.goString(s); ok {
		m := regexp.MustCompile(r.pat).FindStringSubmatch(gs)
		if m == nil {
			return ex.zeroStringSlice()
		}
		var out []*StringV
		for _, x := range m {
			out = append(out, ex.constStr(x))
		}
		return ex.makeStringSlice(out)
	}
	found, start, L, glen := ex.rxSubmatch(r, s, "FindStringSubmatch")
	if !found {
		return ex.zeroStringSlice()
	}
	whole := &StringV{Arr: s.Arr, Off: tb.Add(s.Off, ex.i64(int64(start))), Len: ex.i64(int64(L + glen))}
	group := &StringV{Arr: s.Arr, Off: tb.Add(s.Off, ex.i64(int64(start+L))), Len: ex.i64(int64(glen))}
	return ex.makeStringSlice([]*StringV{whole, group})
}

// FindStringSubmatchIndex: [start, end, capStart, capEnd] or nil
func intrRegexpFindStringSubmatchIndex(ex *Exec, fn *ssa.Function, a []Value, fr *Frame) Value {
	r, _ := ex.rxOf(a[0])
	if r == nil {
		panic(unsupported("FindStringSubmatchIndex on abstract regexp"))
	}
	s := a[1].(*StringV)
	var idx []int
	if gs, ok := ex.goString(s); ok {
		idx = regexp.MustCompile(r.pat).FindStringSubmatchIndex(gs)
		if idx == nil {
			return &SliceV{Off: ex.i64(0), Len: ex.i64(0), Cap: ex.i64(0), Elem: types.Typ[types.Int]}
		}
	} else {
		found, start, L, glen := ex.rxSubmatch(r, s, "FindStringSubmatchIndex")
		if !found {
			return &SliceV{Off: ex.i64(0), Len: ex.i64(0), Cap: ex.i64(0), Elem: types.Typ[types.Int]}
		}
		idx = []int{start, start + L + glen, start + L, start + L + glen}
	}
	var ts []*Term
	for _, x := range idx {
		ts = append(ts, ex.i64(int64(x)))
	}
	return ex.sliceFromTerms(ts, types.Typ[types.Int])
}

func (ex *Exec) zeroStringSlice() Value {
	return &SliceV{Off: ex.i64(0), Len: ex.i64(0), Cap: ex.i64(0)}
}

// rxPrefixClassShape decomposes  c1 c2 ... cL ( C+ )  where every ci is a literal rune or class.
func rxPrefixClassShape(re *syntax.Regexp) (prefix []*syntax.Regexp, class *syntax.Regexp, ok bool) {
	if re.Op != syntax.OpConcat {
		return nil, nil, false
	}
	subs := re.Sub
	last := subs[len(subs)-1]
	if last.Op != syntax.OpCapture || last.Sub[0].Op != syntax.OpPlus {
		return nil, nil, false
	}
	cl := last.Sub[0].Sub[0]
	if cl.Op != syntax.OpCharClass && cl.Op != syntax.OpLiteral {
		return nil, nil, false
	}
	if cl.Op == syntax.OpLiteral && len(cl.Rune) != 1 {
		return nil, nil, false
	}
	for _, s := range subs[:len(subs)-1] {
		switch s.Op {
		case syntax.OpLiteral:
			for _, r := range s.Rune {
				prefix = append(prefix, &syntax.Regexp{Op: syntax.OpLiteral, Rune: []rune{r}, Flags: s.Flags})
			}
		case syntax.OpCharClass:
			prefix = append(prefix, s)
		default:
			return nil, nil, false
		}
	}
	return prefix, cl, true
}

func classMatch(ex *Exec, re *syntax.Regexp, b *Term) *Term {
	tb := ex.tb
	switch re.Op {
	case syntax.OpLiteral:
		r := re.Rune[0]
		var alts []*Term
		if r < 0x80 {
			alts = append(alts, tb.Eq(b, tb.BV(8, uint64(r))))
		}
		if re.Flags&syntax.FoldCase != 0 {
			for r1 := simpleFold(r); r1 != r; r1 = simpleFold(r1) {
				if r1 < 0x80 {
					alts = append(alts, tb.Eq(b, tb.BV(8, uint64(r1))))
				}
			}
		}
		return tb.Or(alts...)
	case syntax.OpCharClass:
		var alts []*Term
		for i := 0; i+1 < len(re.Rune); i += 2 {
			lo, hi := re.Rune[i], re.Rune[i+1]
			if lo >= 0x80 {
				continue
			}
			if hi >= 0x80 {
				hi = 0x7f
			}
			alts = append(alts, tb.And(tb.Cmp(OpUle, tb.BV(8, uint64(lo)), b), tb.Cmp(OpUle, b, tb.BV(8, uint64(hi)))))
		}
		return tb.Or(alts...)
	}
	panic(unsupported("regexp class shape"))
}
