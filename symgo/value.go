package main

import (
	"fmt"
	"go/types"

	"golang.org/x/tools/go/ssa"
)

// Value is one of:
//   *Term        scalar (bool, integers of any width, uintptr)
//   *Pointer     address of a cell inside an Object (Obj == nil: nil pointer)
//   *SliceV      slice header over an array Object
//   *StringV     immutable view over a byte array
//   *MapV        reference to a map object (M == nil: nil map)
//   *IfaceV      interface value (Typ == nil: nil interface)
//   *FuncV       function / closure / bound method value (nil func: Fn == nil && Intr == "")
//   *ChanV       channel reference (C == nil: nil channel)
//   StructV      struct by value
//   ArrayV       array by value
//   TupleV       multiple results
//   *Opaque      library value the engine treats abstractly
type Value interface{}

type StructV []Value
type ArrayV []Value
type TupleV []Value

type Object struct {
	ID   int
	Typ  types.Type // element type of the cell (for arrays: the array type)
	Val  Value      // StructV / ArrayV / scalar...
	Site string
	// ghost
	Frozen bool   // set when a byte array became a map key through the unsafe cast
	Shared bool   // thread mode: reachable by more than one thread
	Owner  int    // thread mode: allocating thread (-1 = setup)
	Name   string // optional label
	UF     string // non-empty: never-written byte array whose element i is the uninterpreted application UF(i)
}

type PathEl struct {
	Idx int
	Sym *Term // non-nil: symbolic index (Idx ignored)
}

type Pointer struct {
	Obj  *Object
	Path []PathEl
	Code *Term // thread mode: pointer read from shared memory (symbolic object code, BV16)
}

type SliceV struct {
	Arr *Object // nil for nil slice
	Off *Term   // BV64 index into Arr
	Len *Term
	Cap *Term
	Elem types.Type
	NilIf *Term // thread mode: the slice is nil iff this holds (slices read from shared memory)
}

type StringV struct {
	Arr *Object // byte array (nil: empty)
	Off *Term
	Len *Term
	cs  *string
}

type MapEntry struct {
	Key Value
	Val Value
}

type MapObj struct {
	ID      int
	Entries []*MapEntry
	KeyT    types.Type
	ValT    types.Type
	Frozen  bool
}

type MapV struct{ M *MapObj }

type IfaceV struct {
	Typ types.Type
	Val Value
}

type FuncV struct {
	Fn    *ssa.Function
	Bind  []Value
	Recv  Value  // bound method receiver (when HasRecv)
	HasRecv bool
	Intr  string // intrinsic name
}

type ChanObj struct {
	ID  int
	Cap int
	Buf []Value
	Closed bool
}

type ChanV struct {
	C   *ChanObj
	Sym *Term // thread mode: channel read from shared memory (symbolic id, BV8)
}

type Opaque struct {
	Kind string
	ID   *Term
	Data interface{}
}

func (p *Pointer) IsNil() bool { return p == nil || (p.Obj == nil && p.Code == nil) }

func typeStr(t types.Type) string {
	return types.TypeString(t, nil)
}

func sameType(a, b types.Type) bool {
	if a == nil || b == nil {
		return a == b
	}
	if types.Identical(a, b) {
		return true
	}
	return typeStr(a) == typeStr(b)
}

func intWidth(t types.Type) (w int, signed bool, ok bool) {
	b, isB := t.Underlying().(*types.Basic)
	if !isB {
		return 0, false, false
	}
	switch b.Kind() {
	case types.Bool, types.UntypedBool:
		return 0, false, true
	case types.Int, types.Int64, types.UntypedInt:
		return 64, true, true
	case types.Uint, types.Uint64, types.Uintptr:
		return 64, false, true
	case types.Int32, types.UntypedRune:
		return 32, true, true
	case types.Uint32:
		return 32, false, true
	case types.Int16:
		return 16, true, true
	case types.Uint16:
		return 16, false, true
	case types.Int8:
		return 8, true, true
	case types.Uint8:
		return 8, false, true
	case types.UnsafePointer:
		return 0, false, false
	}
	return 0, false, false
}

func isString(t types.Type) bool {
	b, ok := t.Underlying().(*types.Basic)
	return ok && (b.Kind() == types.String || b.Kind() == types.UntypedString)
}

func (ex *Exec) zero(t types.Type) Value {
	switch u := t.Underlying().(type) {
	case *types.Basic:
		if isString(t) {
			return ex.constStr("")
		}
		if u.Kind() == types.UnsafePointer {
			return &Pointer{}
		}
		if u.Kind() == types.Float64 || u.Kind() == types.Float32 || u.Kind() == types.UntypedFloat {
			return &Opaque{Kind: "float", ID: ex.tb.BV(64, 0)}
		}
		if u.Kind() == types.UntypedNil {
			return &Pointer{}
		}
		if u.Kind() == types.Invalid {
			return nil // unused component of a range tuple
		}
		w, _, ok := intWidth(t)
		if !ok {
			panic(unsupported("zero of basic type " + t.String() + ex.where() + fmt.Sprintf(" pos=%v", ex.ld.Fset.Position(ex.curPos))))
		}
		if w == 0 {
			return ex.tb.False
		}
		return ex.tb.BV(w, 0)
	case *types.Pointer:
		return &Pointer{}
	case *types.Struct:
		s := make(StructV, u.NumFields())
		for i := range s {
			s[i] = ex.zero(u.Field(i).Type())
		}
		return s
	case *types.Array:
		a := make(ArrayV, u.Len())
		for i := range a {
			a[i] = ex.zero(u.Elem())
		}
		return a
	case *types.Slice:
		return &SliceV{Off: ex.i64(0), Len: ex.i64(0), Cap: ex.i64(0), Elem: u.Elem()}
	case *types.Map:
		return &MapV{}
	case *types.Interface:
		return &IfaceV{}
	case *types.Signature:
		return &FuncV{}
	case *types.Chan:
		return &ChanV{}
	case *types.Tuple:
		tv := make(TupleV, u.Len())
		for i := range tv {
			tv[i] = ex.zero(u.At(i).Type())
		}
		return tv
	}
	panic(unsupported("zero of type " + t.String()))
}

func copyValue(v Value) Value {
	switch x := v.(type) {
	case StructV:
		n := make(StructV, len(x))
		for i, f := range x {
			n[i] = copyValue(f)
		}
		return n
	case ArrayV:
		n := make(ArrayV, len(x))
		for i, f := range x {
			n[i] = copyValue(f)
		}
		return n
	}
	return v
}

func (ex *Exec) i64(v int64) *Term { return ex.tb.BV(64, uint64(v)) }

func (ex *Exec) newObject(t types.Type, v Value, site string) *Object {
	ex.nextObj++
	o := &Object{ID: ex.nextObj, Typ: t, Val: v, Site: site, Owner: ex.curThread}
	return o
}

func (ex *Exec) constStr(s string) *StringV {
	if s == "" {
		e := ""
		return &StringV{Off: ex.i64(0), Len: ex.i64(0), cs: &e}
	}
	arr := make(ArrayV, len(s))
	for i := 0; i < len(s); i++ {
		arr[i] = ex.tb.BV(8, uint64(s[i]))
	}
	o := ex.newObject(nil, arr, "conststr")
	o.Frozen = false
	cs := s
	return &StringV{Arr: o, Off: ex.i64(0), Len: ex.i64(int64(len(s))), cs: &cs}
}

// strBytes returns the byte terms of a string whose offset and length are concrete.
func (ex *Exec) strBytes(s *StringV) []*Term {
	n := ex.concInt(s.Len, "string length")
	if n == 0 {
		return nil
	}
	off := ex.concInt(s.Off, "string offset")
	arr := s.Arr.Val.(ArrayV)
	out := make([]*Term, n)
	for i := 0; i < n; i++ {
		out[i] = arr[off+i].(*Term)
	}
	return out
}

// goString returns the concrete Go string if every byte is constant.
func (ex *Exec) goString(s *StringV) (string, bool) {
	if s.cs != nil {
		return *s.cs, true
	}
	if !s.Len.IsConst() || !s.Off.IsConst() {
		return "", false
	}
	bs := ex.strBytes(s)
	b := make([]byte, len(bs))
	for i, t := range bs {
		if !t.IsConst() {
			return "", false
		}
		b[i] = byte(t.Val)
	}
	r := string(b)
	return r, true
}

func (ex *Exec) strFromTerms(ts []*Term) *StringV {
	if len(ts) == 0 {
		return ex.constStr("")
	}
	arr := make(ArrayV, len(ts))
	allc := true
	b := make([]byte, len(ts))
	for i, t := range ts {
		arr[i] = t
		if t.IsConst() {
			b[i] = byte(t.Val)
		} else {
			allc = false
		}
	}
	o := ex.newObject(nil, arr, "str")
	s := &StringV{Arr: o, Off: ex.i64(0), Len: ex.i64(int64(len(ts)))}
	if allc {
		cs := string(b)
		s.cs = &cs
	}
	return s
}

func (ex *Exec) sliceFromTerms(ts []*Term, elem types.Type) *SliceV {
	arr := make(ArrayV, len(ts))
	for i, t := range ts {
		arr[i] = t
	}
	o := ex.newObject(nil, arr, "bytes")
	n := ex.i64(int64(len(ts)))
	return &SliceV{Arr: o, Off: ex.i64(0), Len: n, Cap: n, Elem: elem}
}

// sliceTerms returns the scalar elements of a slice with concrete bounds.
func (ex *Exec) sliceTerms(s *SliceV) []*Term {
	n := ex.concInt(s.Len, "slice length")
	if n == 0 {
		return nil
	}
	off := ex.concInt(s.Off, "slice offset")
	arr := s.Arr.Val.(ArrayV)
	out := make([]*Term, n)
	for i := 0; i < n; i++ {
		out[i] = arr[off+i].(*Term)
	}
	return out
}

type unsupportedErr struct{ msg string }

func unsupported(msg string) unsupportedErr { return unsupportedErr{msg} }
func (u unsupportedErr) Error() string       { return "unsupported: " + u.msg }

func describe(v Value) string {
	switch x := v.(type) {
	case *Term:
		if x.IsConst() {
			return fmt.Sprintf("%d", x.SInt())
		}
		return fmt.Sprintf("<term %d>", x.ID)
	case *Pointer:
		if x.IsNil() {
			return "nil"
		}
		return fmt.Sprintf("&obj%d%v", x.Obj.ID, x.Path)
	case *StringV:
		if x.cs != nil {
			return fmt.Sprintf("%q", *x.cs)
		}
		return "<string>"
	case nil:
		return "<nil-value>"
	}
	return fmt.Sprintf("%T", v)
}

func ptrTo(t types.Type) types.Type { return types.NewPointer(t) }
