package main

// `symgo check <ID> --tier quick|thorough`: runs the harnesses registered for a
// property, classifies results (proved / known finding / violation / inconclusive),
// replays counterexamples against the real build and writes the evidence file.

import (
	"encoding/json"
	"fmt"
	"os"
	"path/filepath"
	"runtime"
	"sort"
	"strconv"
	"strings"
	"time"
)

type HarnessSpec struct {
	Pkg      string
	Fn       string
	Init     []string
	Tier     string // "" both, "quick", "thorough"
	MaxPaths int
	Reach    []string // reachability witnesses that must be hit (vacuity guard)
	Loop     int
	EngineOnly bool // assertions rely on engine ghost state (native replay only confirms the path)
}

type PropSpec struct {
	ID          string
	Harnesses   []HarnessSpec
	BMC         []BMCSpec
	Explanation string
	Assumptions []string
	Encoded     []string // real functions encoded from SSA (informational; checked to exist)
	Bounds      map[string]string
	Level       string // evidence level override
}

type KnownFinding struct {
	ID       string `json:"id"`
	Property string `json:"property"`
	Status   string `json:"status"` // "open" or "fixed: property=<id> <commit> <what failed>"
	What     string `json:"what"`
}

func loadKnownFindings(path string) (map[string]KnownFinding, error) {
	b, err := os.ReadFile(path)
	if err != nil {
		if os.IsNotExist(err) {
			return map[string]KnownFinding{}, nil
		}
		return nil, err
	}
	var f struct {
		Findings []KnownFinding `json:"findings"`
	}
	if err := json.Unmarshal(b, &f); err != nil {
		return nil, err
	}
	m := map[string]KnownFinding{}
	for _, k := range f.Findings {
		m[k.ID] = k
	}
	return m, nil
}

type Evidence struct {
	PropertyID  string                 `json:"property_id"`
	Tier        string                 `json:"tier"`
	Seed        int                    `json:"seed"`
	Level       string                 `json:"level"`
	Coverage    map[string]interface{} `json:"coverage"`
	Assumptions []string               `json:"assumptions"`
	WallS       float64                `json:"wall_s"`
	Violations  int                    `json:"violations"`
}

func verifDir() string {
	if d := os.Getenv("VERIF_DIR"); d != "" {
		return d
	}
	return "/verif"
}

func repoDir() string {
	if d := os.Getenv("VERIF_REPO"); d != "" {
		return d
	}
	return "/repo"
}

func runCheck(id, tier string) int {
	t0 := time.Now()
	spec, ok := propRegistry()[id]
	if !ok {
		fmt.Printf("INCONCLUSIVE property=%s reason=no check registered\n", id)
		return 2
	}
	vd := verifDir()
	kfs, err := loadKnownFindings(filepath.Join(vd, "known_findings.json"))
	if err != nil {
		fmt.Printf("INCONCLUSIVE property=%s reason=known_findings.json: %v\n", id, err)
		return 2
	}
	w, err := LoadWorld(repoDir(), filepath.Join(vd, "harness"))
	if err != nil {
		fmt.Printf("INCONCLUSIVE property=%s reason=cannot load /repo + harness: %v\n", id, err)
		return 2
	}
	w.StopOnViolation = true
	// native replays (child processes) read the tier from the environment
	os.Setenv("VERIF_TIER", tier)
	// functions the specification names as entry points: informational (a refactor may rename or
	// inline them); what the evidence reports as encoded is the set of pike functions the engine
	// actually entered during this run
	var declaredMissing []string
	for _, f := range spec.Encoded {
		if !w.funcExists(f) {
			declaredMissing = append(declaredMissing, f)
		}
	}
	executed := map[string]bool{}
	timeout := 60000
	if tier == "thorough" {
		timeout = 600000
	}
	pool := NewSolverPool("z3", timeout)
	defer pool.CloseAll()
	// cross-solver sampling: z3 5.1 (z3-new) re-decides every 25th path/assertion query in the quick
	// tier and every 5th in the thorough tier; SYMGO_CROSS=cvc5|z3-new|off and SYMGO_CROSS_EVERY=n override
	crossKind, crossEvery := "z3-new", 25
	if tier == "thorough" {
		crossEvery = 5
	}
	if k := os.Getenv("SYMGO_CROSS"); k != "" {
		crossKind = k
	}
	if n, err := strconv.Atoi(os.Getenv("SYMGO_CROSS_EVERY")); err == nil && n > 0 {
		crossEvery = n
	}
	if crossKind != "off" {
		os.Setenv("SYMGO_DISAGREE_DIR", filepath.Join(vd, "replays", id, "solver-disagreements"))
		os.RemoveAll(filepath.Join(vd, "replays", id, "solver-disagreements"))
		pool.EnableCross(crossKind, crossEvery)
	}
	workers := runtime.NumCPU()
	tierN := 0
	if tier == "thorough" {
		tierN = 1
	}

	inconclusive := []string{}
	bmcStates, bmcTransitions, bmcReplayed := 0, 0, 0
	violations := 0
	knownHit := map[string]string{}
	var harnessSummaries []map[string]interface{}
	totalPaths, totalAsserts, provedAsserts := 0, 0, 0
	var samples []interface{}
	obligations := map[string]bool{}
	var replayDirs []string
	var witnesses []Witness
	notComparable := 0

	for _, hs := range spec.Harnesses {
		if hs.Tier != "" && hs.Tier != tier {
			continue
		}
		opts := &RunOpts{InitPkgs: hs.Init, Tier: tierN, LoopBound: hs.Loop}
		maxPaths := hs.MaxPaths
		if maxPaths == 0 {
			maxPaths = 200000
		}
		hr, err := w.RunHarness(hs.Pkg, hs.Fn, opts, pool, workers, maxPaths)
		if err != nil {
			inconclusive = append(inconclusive, fmt.Sprintf("%s.%s: %v", hs.Pkg, hs.Fn, err))
			if hr == nil {
				continue
			}
		}
		notComparable += hr.NotComparable
		for f := range hr.Funcs {
			executed[f] = true
		}
		if !hr.Stopped {
			// a spread of the clean paths: at most witnessN per harness, distinct reach signatures first
			witnessN := 3
			if tier == "thorough" {
				witnessN = 24
			}
			seen := map[string]bool{}
			var pick []Witness
			for pass := 0; pass < 2 && len(pick) < witnessN; pass++ {
				for _, wt := range hr.Witnesses {
					sig := strings.Join(wt.Reached, ",")
					if len(pick) >= witnessN || (pass == 0) == seen[sig] {
						continue
					}
					if pass == 0 {
						seen[sig] = true
					}
					wt.Harness = hs
					pick = append(pick, wt)
				}
			}
			witnesses = append(witnesses, pick...)
		}
		totalPaths += hr.Paths
		sum := map[string]interface{}{"harness": hr.Name, "paths": hr.Paths, "ssa_steps": hr.Steps, "wall_s": hr.Dur.Seconds(), "path_ends": hr.EndCounts, "reached": hr.Reached}
		asum := map[string]interface{}{}
		for _, u := range hr.Unsup {
			inconclusive = append(inconclusive, fmt.Sprintf("%s: unsupported: %s", hr.Name, u))
			break
		}
		for _, r := range hs.Reach {
			if hr.Reached[r] == 0 && !hr.Stopped {
				inconclusive = append(inconclusive, fmt.Sprintf("%s: vacuous: reachability witness %q never reached", hr.Name, r))
			}
		}
		names := make([]string, 0, len(hr.Asserts))
		for n := range hr.Asserts {
			names = append(names, n)
		}
		sort.Strings(names)
		for _, n := range names {
			a := hr.Asserts[n]
			obligations[n] = true
			totalAsserts += a.Proved + a.Trivial + a.Violated + a.Unknown + a.KnownN
			provedAsserts += a.Proved + a.Trivial
			asum[n] = map[string]int{"proved": a.Proved, "trivially_true": a.Trivial, "violated": a.Violated, "known_finding": a.KnownN, "unknown": a.Unknown}
			if a.Unknown > 0 {
				d := ""
				if len(a.Details) > 0 {
					d = a.Details[0]
				}
				inconclusive = append(inconclusive, fmt.Sprintf("%s: assertion %s: solver unknown on %d path(s) %s", hr.Name, n, a.Unknown, d))
			}
			for kid, cnt := range a.Known {
				kf, listed := kfs[kid]
				if listed && kf.Status == "open" && strings.Contains(","+kf.Property+",", ","+id+",") {
					knownHit[kid] = kf.What
					_ = cnt
					continue
				}
				// a finding that is not listed as open is a plain violation
				a.Violated += cnt
				for _, cx := range a.KnownCex[kid] {
					a.Cex = append(a.Cex, cx)
				}
			}
			if a.Violated > 0 {
				// replay the first counterexamples against the real build
				reproduced := false
				var lastDir string
				for i, cx := range a.Cex {
					if i >= 5 {
						break
					}
					dir, ok, out := w.Replay(id, hs, n, cx, i)
					lastDir = dir
					if ok {
						reproduced = true
						fmt.Printf("VIOLATION property=%s replay=%s\n", id, dir)
						fmt.Printf("  assertion %s fails in %s; counterexample inputs: %s\n", n, hr.Name, modelString(cx.Model))
						replayDirs = append(replayDirs, dir)
						violations++
						break
					} else if hs.EngineOnly && strings.Contains(out, "REPLAY-PATH-OK") {
						reproduced = true
						fmt.Printf("VIOLATION property=%s replay=%s\n", id, dir)
						fmt.Printf("  assertion %s (engine ghost state) fails in %s; the native replay followed the same path; inputs: %s\n", n, hr.Name, modelString(cx.Model))
						replayDirs = append(replayDirs, dir)
						violations++
						break
					}
				}
				if !reproduced {
					inconclusive = append(inconclusive, fmt.Sprintf("%s: assertion %s: counterexample did not reproduce natively (encoder/stub fault?) replay=%s", hr.Name, n, lastDir))
				}
			}
		}
		sum["assertions"] = asum
		if len(hr.Events) > 0 {
			sum["events"] = hr.Events
		}
		harnessSummaries = append(harnessSummaries, sum)
		for _, s := range hr.SampleInputs {
			if len(samples) < 6 {
				samples = append(samples, map[string]interface{}{"harness": hr.Name, "path_decisions": s.Prefix, "inputs_on_that_path": s.Inputs})
			}
		}
	}
	// BMC systems
	for _, bs := range spec.BMC {
		if bs.Tier != "" && bs.Tier != tier {
			continue
		}
		br := w.RunBMC(id, bs, tier, kfs)
		bmcStates += br.States
		bmcTransitions += br.Transitions
		bmcReplayed += br.Replayed
		harnessSummaries = append(harnessSummaries, br.Summary)
		inconclusive = append(inconclusive, br.Inconclusive...)
		for k, v := range br.Known {
			knownHit[k] = v
		}
		for _, v := range br.Violations {
			fmt.Printf("VIOLATION property=%s replay=%s\n", id, v.Replay)
			fmt.Printf("  %s\n", v.What)
			violations++
		}
		totalPaths += br.Paths
		totalAsserts += br.Obligations
		provedAsserts += br.Discharged
		for _, o := range br.ObligationNames {
			obligations[o] = true
		}
		for _, s := range br.Samples {
			if len(samples) < 8 {
				samples = append(samples, s)
			}
		}
	}

	// translator validation: path witnesses through the native build
	var wres *WitnessResult
	if violations == 0 && os.Getenv("SYMGO_NO_WITNESS") == "" {
		wres = w.ValidateWitnesses(id, witnesses)
		for _, d := range wres.Diverged {
			fmt.Printf("NOTE property=%s witness path not followed natively: %s\n", id, d)
		}
	}
	nq, nsat, nunsat, nunk, sdur := pool.Stats()
	nq += bmcStats.NQ
	nsat += bmcStats.NSat
	nunsat += bmcStats.NUnsat
	nunk += bmcStats.NUnk
	sdur += bmcStats.Dur
	for kid, what := range knownHit {
		fmt.Printf("KNOWN-FINDING: property=%s %s: %s\n", id, kid, what)
	}
	if len(samples) == 0 {
		samples = append(samples, "no feasible path sample recorded")
	}
	obl := make([]string, 0, len(obligations))
	for o := range obligations {
		obl = append(obl, o)
	}
	sort.Strings(obl)
	level := "other"
	if len(spec.BMC) > 0 && len(spec.Harnesses) == 0 {
		level = "model_checking"
	}
	if spec.Level != "" {
		level = spec.Level
	}
	for f := range bmcFuncs {
		executed[f] = true
	}
	var encodedList []string
	for f := range executed {
		encodedList = append(encodedList, strings.ReplaceAll(f, pikeMod+"/", ""))
	}
	sort.Strings(encodedList)
	ev := Evidence{
		PropertyID: id, Tier: tier, Seed: seedEnv(), Level: level,
		Coverage: map[string]interface{}{
			"explanation":         spec.Explanation,
			"evaluations":         nq,
			"distinct_nontrivial": totalPaths,
			"rule":                "evaluations = SMT queries discharged by this run (path feasibility + one query per assertion instance per path); distinct_nontrivial = distinct feasible execution paths (decision vectors) of the harnesses through the real SSA, each covering every input value satisfying its path condition",
			"samples":             samples,
			"harnesses":           harnessSummaries,
			"functions_encoded":   encodedList,
			"functions_named_in_spec_but_absent_from_tree": declaredMissing,
			"bounds":              spec.Bounds,
			"assertion_instances": totalAsserts,
			"assertion_instances_discharged": provedAsserts,
			"obligation_names":    obl,
			"obligations":         totalAsserts,
			"discharged":          provedAsserts,
			"solver":              map[string]interface{}{"name": "z3 4.8.12 (/usr/bin/z3 -in, push/pop)", "queries": nq, "sat": nsat, "unsat": nunsat, "unknown_or_error": nunk, "solver_seconds": sdur.Seconds()},
			"load_seconds":        w.LoadDur.Seconds(),
			"source_files_encoded_from": len(w.ld.SrcFiles),
			"known_findings_hit":  knownHit,
			"inconclusive":        inconclusive,
			"exhaustive":          false,
		},
		Assumptions: spec.Assumptions,
		WallS:       time.Since(t0).Seconds(),
		Violations:  violations,
	}
	if pool.Cross != nil {
		cs := pool.Cross
		for _, d := range cs.Disagree {
			inconclusive = append(inconclusive, "solver disagreement: "+d)
		}
		ev.Coverage["cross_solver"] = map[string]interface{}{
			"second_solver": map[string]string{"z3-new": "z3 5.1.0 (z3-new -in)", "cvc5": "cvc5 1.0 (--incremental)"}[cs.Kind],
			"sampling":      fmt.Sprintf("every %d-th path-feasibility / assertion query of the sequential harnesses", crossEvery),
			"compared":      cs.Compared, "agreed": cs.Agreed, "second_solver_undecided": cs.Undecided, "disagreements": cs.Disagree,
		}
	}
	if wres != nil && (wres.Tried > 0 || notComparable > 0) {
		ev.Coverage["translator_validation"] = map[string]interface{}{
			"paths_not_comparable": notComparable,
			"not_comparable_why":   "paths through a stubbed library function (the native shim redirects only pike's own functions) or through a harness branch on verifNative()",
			"what":            "concrete input vectors of explored paths (solver models of the path conditions) run through the natively compiled harness; followed = same reach labels in order, all assumptions and assertions hold, no panic",
			"witness_paths":   wres.Tried,
			"followed":        wres.Followed,
			"diverged":        wres.Diverged,
			"seconds":         wres.Dur.Seconds(),
		}
		ev.Coverage["traces_validated_against_impl"] = wres.Followed + bmcReplayed
	}
	if len(spec.BMC) > 0 {
		ev.Coverage["states"] = bmcStates
		ev.Coverage["transitions"] = bmcTransitions
		if _, ok := ev.Coverage["traces_validated_against_impl"]; !ok {
			ev.Coverage["traces_validated_against_impl"] = bmcReplayed
		}
	}
	os.MkdirAll(filepath.Join(vd, "evidence"), 0o755)
	b, _ := json.MarshalIndent(ev, "", " ")
	os.WriteFile(filepath.Join(vd, "evidence", id+".json"), b, 0o644)

	if violations > 0 {
		return 1
	}
	if len(inconclusive) > 0 {
		for _, m := range inconclusive {
			fmt.Printf("INCONCLUSIVE property=%s reason=%s\n", id, m)
		}
		return 2
	}
	fmt.Printf("OK property=%s tier=%s paths=%d assertion_instances=%d queries=%d (unsat=%d sat=%d) solver_s=%.1f wall_s=%.1f\n",
		id, tier, totalPaths, totalAsserts, nq, nunsat, nsat, sdur.Seconds(), time.Since(t0).Seconds())
	return 0
}

func seedEnv() int {
	var n int
	fmt.Sscanf(os.Getenv("VERIF_SEED"), "%d", &n)
	return n
}

func modelString(m map[string]uint64) string {
	keys := make([]string, 0, len(m))
	for k := range m {
		keys = append(keys, k)
	}
	sort.Strings(keys)
	var sb strings.Builder
	// render byte strings compactly
	strs := map[string][]byte{}
	for _, k := range keys {
		if i := strings.Index(k, "["); i > 0 && strings.HasSuffix(k, "]") {
			base := k[:i]
			var idx int
			fmt.Sscanf(k[i:], "[%d]", &idx)
			ln := int(m[base+".len"])
			if idx < ln {
				for len(strs[base]) <= idx {
					strs[base] = append(strs[base], 0)
				}
				strs[base][idx] = byte(m[k])
			}
			continue
		}
		if strings.HasSuffix(k, ".len") {
			if m[k] == 0 {
				fmt.Fprintf(&sb, "%s=\"\" ", strings.TrimSuffix(k, ".len"))
			}
			continue
		}
		fmt.Fprintf(&sb, "%s=%d ", k, int64(m[k]))
	}
	bases := make([]string, 0, len(strs))
	for b := range strs {
		bases = append(bases, b)
	}
	sort.Strings(bases)
	for _, b := range bases {
		fmt.Fprintf(&sb, "%s=%q ", b, string(strs[b]))
	}
	return sb.String()
}

func (w *World) funcExists(name string) bool {
	// name: "<pkg>.<Func>" or "<pkg>.(*T).m" / "<pkg>.T.m"
	i := strings.Index(name, ".")
	if i < 0 {
		return false
	}
	pkg, rest := name[:i], name[i+1:]
	sp := w.ld.Src[pikeMod+"/"+pkg]
	if sp == nil {
		return false
	}
	if !strings.HasPrefix(rest, "(") && !strings.Contains(rest, ".") {
		if strings.Contains(rest, "$") {
			base := rest[:strings.Index(rest, "$")]
			f := sp.Func(base)
			return f != nil && len(f.AnonFuncs) > 0
		}
		return sp.Func(rest) != nil
	}
	// method
	full := ""
	if strings.HasPrefix(rest, "(*") {
		j := strings.Index(rest, ")")
		full = "(*" + pikeMod + "/" + pkg + "." + rest[2:j] + ")" + rest[j+1:]
	} else {
		j := strings.Index(rest, ".")
		full = "(" + pikeMod + "/" + pkg + "." + rest[:j] + ")" + rest[j:]
	}
	return w.methodByFullName(sp.Pkg.Path(), full) != nil
}
