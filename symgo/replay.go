package main

// Replay of a solver counterexample against the real build: the harness is compiled
// natively (go test -overlay) with the nondet runtime reading the model, and pike
// functions that the engine replaced by harness hooks get their bodies redirected to
// the same hooks by a mechanical go/ast rewrite of the current source.

import (
	"bytes"
	"encoding/json"
	"fmt"
	"go/ast"
	"go/parser"
	"go/printer"
	"go/token"
	"os"
	"os/exec"
	"path/filepath"
	"strings"
	"time"
)

type Cex struct {
	Model  map[string]uint64
	Prefix []int
	Detail string
}

func sanitize(s string) string {
	r := strings.NewReplacer("/", "_", " ", "_", ".", "_", "(", "", ")", "", "*", "", "$", "_")
	return r.Replace(s)
}

// hookTargetsByFile: for pike functions that have hooks, map source file -> (func/method name -> hook name)
type hookSite struct {
	recv string // receiver type name ("" for plain functions), without '*'
	name string
	hook string
}

func (w *World) hookSites() map[string][]hookSite {
	res := map[string][]hookSite{}
	for target, hf := range w.hooks {
		// target forms: "<pkgpath>.<name>"  or "(*<pkgpath>.<T>).<m>" or "(<pkgpath>.<T>).<m>"
		var pkgPath, recv, name string
		if strings.HasPrefix(target, "(") {
			j := strings.Index(target, ")")
			inner := strings.TrimPrefix(target[1:j], "*")
			k := strings.LastIndex(inner, ".")
			pkgPath, recv = inner[:k], inner[k+1:]
			name = target[j+2:]
		} else {
			k := strings.LastIndex(target, ".")
			pkgPath, name = target[:k], target[k+1:]
		}
		if !strings.HasPrefix(pkgPath, pikeMod) {
			continue
		}
		files := w.ld.Files[pkgPath]
		for _, f := range files {
			fn := w.ld.Fset.Position(f.Pos()).Filename
			if strings.Contains(filepath.Base(fn), "zz_") {
				continue
			}
			for _, d := range f.Decls {
				fd, ok := d.(*ast.FuncDecl)
				if !ok || fd.Name.Name != name {
					continue
				}
				r := ""
				if fd.Recv != nil && len(fd.Recv.List) > 0 {
					switch t := fd.Recv.List[0].Type.(type) {
					case *ast.StarExpr:
						if id, ok := t.X.(*ast.Ident); ok {
							r = id.Name
						}
					case *ast.Ident:
						r = t.Name
					}
				}
				if r != recv {
					continue
				}
				res[fn] = append(res[fn], hookSite{recv: recv, name: name, hook: hf.Name()})
			}
		}
	}
	return res
}

// rewriteHooked returns the source of file with the bodies of hooked functions redirected.
func rewriteHooked(file string, sites []hookSite) ([]byte, error) {
	fset := token.NewFileSet()
	f, err := parser.ParseFile(fset, file, nil, parser.ParseComments)
	if err != nil {
		return nil, err
	}
	var flags []string
	for _, d := range f.Decls {
		fd, ok := d.(*ast.FuncDecl)
		if !ok {
			continue
		}
		for _, s := range sites {
			if fd.Name.Name != s.name {
				continue
			}
			r := ""
			recvName := ""
			if fd.Recv != nil && len(fd.Recv.List) > 0 {
				switch t := fd.Recv.List[0].Type.(type) {
				case *ast.StarExpr:
					if id, ok := t.X.(*ast.Ident); ok {
						r = id.Name
					}
				case *ast.Ident:
					r = t.Name
				}
				if len(fd.Recv.List[0].Names) > 0 {
					recvName = fd.Recv.List[0].Names[0].Name
				} else {
					recvName = "verifRecv"
					fd.Recv.List[0].Names = []*ast.Ident{ast.NewIdent(recvName)}
				}
			}
			if r != s.recv {
				continue
			}
			var args []ast.Expr
			if recvName != "" {
				args = append(args, ast.NewIdent(recvName))
			}
			for i, p := range fd.Type.Params.List {
				if len(p.Names) == 0 {
					n := fmt.Sprintf("verifArg%d", i)
					p.Names = []*ast.Ident{ast.NewIdent(n)}
				}
				for _, n := range p.Names {
					if n.Name == "_" {
						n.Name = fmt.Sprintf("verifArg%d", i)
					}
					args = append(args, ast.NewIdent(n.Name))
				}
			}
			call := &ast.CallExpr{Fun: ast.NewIdent(s.hook), Args: args}
			if _, variadic := lastVariadic(fd); variadic {
				call.Ellipsis = token.Pos(1)
			}
			var stmt ast.Stmt
			if fd.Type.Results != nil && len(fd.Type.Results.List) > 0 {
				stmt = &ast.ReturnStmt{Results: []ast.Expr{call}}
			} else {
				stmt = &ast.BlockStmt{List: []ast.Stmt{&ast.ExprStmt{X: call}, &ast.ReturnStmt{}}}
			}
			// keep the original body (and its imports) behind a guard; a hook that calls the original
			// function (conditional stubs) must reach the original body: re-entrancy flag
			flag := "verifIn_" + s.recv + "_" + s.name
			guardBody := []ast.Stmt{
				&ast.AssignStmt{Lhs: []ast.Expr{ast.NewIdent(flag)}, Tok: token.ASSIGN, Rhs: []ast.Expr{ast.NewIdent("true")}},
				&ast.DeferStmt{Call: &ast.CallExpr{Fun: &ast.FuncLit{Type: &ast.FuncType{Params: &ast.FieldList{}}, Body: &ast.BlockStmt{List: []ast.Stmt{
					&ast.AssignStmt{Lhs: []ast.Expr{ast.NewIdent(flag)}, Tok: token.ASSIGN, Rhs: []ast.Expr{ast.NewIdent("false")}}}}}}},
				stmt,
			}
			guard := &ast.IfStmt{Cond: &ast.BinaryExpr{X: ast.NewIdent("verifHooked"), Op: token.LAND, Y: &ast.UnaryExpr{Op: token.NOT, X: ast.NewIdent(flag)}}, Body: &ast.BlockStmt{List: guardBody}}
			fd.Body.List = append([]ast.Stmt{guard}, fd.Body.List...)
			flags = append(flags, flag)
		}
	}
	var buf bytes.Buffer
	if err := printer.Fprint(&buf, fset, f); err != nil {
		return nil, err
	}
	// unused imports after removing bodies would not compile: keep them alive
	out := buf.String()
	for _, fl := range flags {
		out += "\nvar " + fl + " bool\n"
	}
	var keep strings.Builder
	for _, imp := range f.Imports {
		name := ""
		if imp.Name != nil {
			name = imp.Name.Name
			if name == "_" || name == "." {
				continue
			}
		} else {
			p := strings.Trim(imp.Path.Value, `"`)
			name = p[strings.LastIndex(p, "/")+1:]
			if strings.HasPrefix(name, "v") && len(name) <= 3 && strings.Count(p, "/") > 0 {
				// .../v3 style module suffix: use the previous element
				q := p[:strings.LastIndex(p, "/")]
				name = q[strings.LastIndex(q, "/")+1:]
			}
			name = strings.ReplaceAll(name, "-", "_")
			name = strings.TrimPrefix(name, "go_")
		}
		_ = name
	}
	_ = keep
	return []byte(out), nil
}

func lastVariadic(fd *ast.FuncDecl) (string, bool) {
	ps := fd.Type.Params.List
	if len(ps) == 0 {
		return "", false
	}
	if _, ok := ps[len(ps)-1].Type.(*ast.Ellipsis); ok {
		return "", true
	}
	return "", false
}

// Replay writes a replay directory for the counterexample and runs it.  ok means the
// named assertion failed in the native run as well.
func (w *World) Replay(id string, hs HarnessSpec, assertName string, cx Cex, n int) (dir string, ok bool, output string) {
	vd := verifDir()
	dir = filepath.Join(vd, "replays", id, fmt.Sprintf("%s-%s-%d", hs.Fn, sanitize(assertName), n))
	os.RemoveAll(dir)
	os.MkdirAll(dir, 0o755)
	mb, _ := json.MarshalIndent(cx.Model, "", " ")
	os.WriteFile(filepath.Join(dir, "model.json"), mb, 0o644)
	overlay := map[string]string{}
	ov, _ := harnessOverlay(w.Harness)
	nativeTmpl, err := os.ReadFile(filepath.Join(w.Harness, "rt", "verif_rt_native.go.tmpl"))
	if err != nil {
		return dir, false, err.Error()
	}
	for pkg, files := range ov {
		pd := filepath.Join(dir, pkg)
		os.MkdirAll(pd, 0o755)
		for _, f := range files {
			src, _ := os.ReadFile(f)
			s := strings.Replace(string(src), "//go:build verif_harness", "// (harness)", 1)
			dst := filepath.Join(pd, filepath.Base(f))
			os.WriteFile(dst, []byte(s), 0o644)
			overlay[filepath.Join(w.Repo, pkg, "zz_"+filepath.Base(f))] = dst
		}
		rt := strings.Replace(string(nativeTmpl), "package PKG", "package "+filepath.Base(pkg), 1)
		dst := filepath.Join(pd, "verif_rt_native.go")
		os.WriteFile(dst, []byte(rt), 0o644)
		overlay[filepath.Join(w.Repo, pkg, "zz_verif_rt_native.go")] = dst
	}
	for file, sites := range w.hookSites() {
		src, err := rewriteHooked(file, sites)
		if err != nil {
			return dir, false, "rewrite " + file + ": " + err.Error()
		}
		rel, _ := filepath.Rel(w.Repo, file)
		dst := filepath.Join(dir, filepath.Dir(rel), "hooked_"+filepath.Base(file))
		os.MkdirAll(filepath.Dir(dst), 0o755)
		os.WriteFile(dst, src, 0o644)
		overlay[file] = dst
	}
	test := fmt.Sprintf(`package %s

import "testing"

func TestVerifReplay(t *testing.T) {
	if verifReplayMain(%q, %s) {
		t.Fatalf("REPLAY-REPRODUCED %s")
	}
}
`, filepath.Base(hs.Pkg), assertName, hs.Fn, assertName)
	tdst := filepath.Join(dir, hs.Pkg, "verif_replay_test.go")
	os.WriteFile(tdst, []byte(test), 0o644)
	overlay[filepath.Join(w.Repo, hs.Pkg, "zz_verif_replay_test.go")] = tdst
	ob, _ := json.MarshalIndent(map[string]interface{}{"Replace": overlay}, "", " ")
	os.WriteFile(filepath.Join(dir, "overlay.json"), ob, 0o644)
	cmdline := fmt.Sprintf("cd %s && VERIF_MODEL=%s GOFLAGS=-mod=mod GOPROXY=off GOSUMDB=off GOTOOLCHAIN=local timeout 600 go test -vet=off -count=1 -overlay %s -run '^TestVerifReplay$' -v ./%s/\n",
		w.Repo, filepath.Join(dir, "model.json"), filepath.Join(dir, "overlay.json"), hs.Pkg)
	os.WriteFile(filepath.Join(dir, "cmd.sh"), []byte("#!/bin/sh\n# replays the solver counterexample against the real build; exit status 1 = reproduced\n"+cmdline), 0o755)
	t0 := time.Now()
	cmd := exec.Command("/bin/sh", filepath.Join(dir, "cmd.sh"))
	out, _ := cmd.CombinedOutput()
	output = string(out)
	os.WriteFile(filepath.Join(dir, "output.txt"), []byte(output+fmt.Sprintf("\n(replay took %v)\n", time.Since(t0))), 0o644)
	ok = strings.Contains(output, "REPLAY-REPRODUCED "+assertName) || strings.Contains(output, "REPLAY-ASSERT-FAILED "+assertName+"\n") || strings.Contains(output, "REPLAY-ASSERT-FAILED "+assertName+" ")
	if assertName == "no-panic" && strings.Contains(output, "REPLAY-PANIC") {
		ok = true
	}
	if i := strings.Index(output, "REPLAY-ASSUME-FAILED"); i >= 0 {
		// an assumption that fails only after the target assertion has already failed does not matter
		j := strings.Index(output, "REPLAY-ASSERT-FAILED "+assertName)
		if j < 0 || j > i {
			ok = false
		}
	}
	return dir, ok, output
}
