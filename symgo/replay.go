package main

// Replay of a solver counterexample against the real build: the harness is compiled
// natively (go test -overlay) with the nondet runtime reading the model, and pike
// functions that the engine replaced by harness hooks get their bodies redirected to
// the same hooks by a mechanical go/ast rewrite of the current source.

import (
	"bytes"
	"encoding/json"
	"fmt"
	"go/ast"
	"go/parser"
	"go/printer"
	"go/token"
	"os"
	"os/exec"
	"path/filepath"
	"strings"
	"time"
)

type Cex struct {
	Model  map[string]uint64
	Prefix []int
	Detail string
}

func sanitize(s string) string {
	r := strings.NewReplacer("/", "_", " ", "_", ".", "_", "(", "", ")", "", "*", "", "$", "_")
	return r.Replace(s)
}

// hookTargetsByFile: for pike functions that have hooks, map source file -> (func/method name -> hook name)
type hookSite struct {
	recv string // receiver type name ("" for plain functions), without '*'
	name string
	hook string
}

func (w *World) hookSites() map[string][]hookSite {
	res := map[string][]hookSite{}
	for target, hf := range w.hooks {
		// target forms: "<pkgpath>.<name>"  or "(*<pkgpath>.<T>).<m>" or "(<pkgpath>.<T>).<m>"
		var pkgPath, recv, name string
		if strings.HasPrefix(target, "(") {
			j := strings.Index(target, ")")
			inner := strings.TrimPrefix(target[1:j], "*")
			k := strings.LastIndex(inner, ".")
			pkgPath, recv = inner[:k], inner[k+1:]
			name = target[j+2:]
		} else {
			k := strings.LastIndex(target, ".")
			pkgPath, name = target[:k], target[k+1:]
		}
		if !strings.HasPrefix(pkgPath, pikeMod) {
			continue
		}
		files := w.ld.Files[pkgPath]
		for _, f := range files {
			fn := w.ld.Fset.Position(f.Pos()).Filename
			if strings.Contains(filepath.Base(fn), "zz_") {
				continue
			}
			for _, d := range f.Decls {
				fd, ok := d.(*ast.FuncDecl)
				if !ok || fd.Name.Name != name {
					continue
				}
				r := ""
				if fd.Recv != nil && len(fd.Recv.List) > 0 {
					switch t := fd.Recv.List[0].Type.(type) {
					case *ast.StarExpr:
						if id, ok := t.X.(*ast.Ident); ok {
							r = id.Name
						}
					case *ast.Ident:
						r = t.Name
					}
				}
				if r != recv {
					continue
				}
				res[fn] = append(res[fn], hookSite{recv: recv, name: name, hook: hf.Name()})
			}
		}
	}
	return res
}

// rewriteHooked returns the source of file with the bodies of hooked functions redirected.
func rewriteHooked(file string, sites []hookSite) ([]byte, error) {
	return rewriteSource(file, nil, sites, nil)
}

// insertYields puts a verifYield("<base>:<line>") call before every statement that starts on one
// of the given lines (schedule points of a BMC replay).
func insertYields(fset *token.FileSet, f *ast.File, base string, lines map[int]bool) {
	var fix func(list []ast.Stmt) []ast.Stmt
	fix = func(list []ast.Stmt) []ast.Stmt {
		var out []ast.Stmt
		for _, st := range list {
			line := fset.Position(st.Pos()).Line
			if lines[line] {
				if _, isDecl := st.(*ast.DeclStmt); !isDecl {
					call := &ast.ExprStmt{X: &ast.CallExpr{Fun: ast.NewIdent("verifYield"), Args: []ast.Expr{&ast.BasicLit{Kind: token.STRING, Value: fmt.Sprintf("%q", fmt.Sprintf("%s:%d", base, line))}}}}
					out = append(out, call)
				}
			}
			out = append(out, st)
		}
		return out
	}
	ast.Inspect(f, func(n ast.Node) bool {
		switch x := n.(type) {
		case *ast.BlockStmt:
			x.List = fix(x.List)
		case *ast.CaseClause:
			x.Body = fix(x.Body)
		case *ast.CommClause:
			x.Body = fix(x.Body)
		}
		return true
	})
}

// rewriteSource applies hook redirection and/or yield insertion to a source file (or to src when given).
func rewriteSource(file string, src []byte, sites []hookSite, yieldLines map[int]bool) ([]byte, error) {
	fset := token.NewFileSet()
	var f *ast.File
	var err error
	if src != nil {
		f, err = parser.ParseFile(fset, file, src, parser.ParseComments)
	} else {
		f, err = parser.ParseFile(fset, file, nil, parser.ParseComments)
	}
	if err != nil {
		return nil, err
	}
	if len(yieldLines) > 0 {
		insertYields(fset, f, filepath.Base(file), yieldLines)
	}
	var flags []string
	for _, d := range f.Decls {
		fd, ok := d.(*ast.FuncDecl)
		if !ok {
			continue
		}
		for _, s := range sites {
			if fd.Name.Name != s.name {
				continue
			}
			r := ""
			recvName := ""
			if fd.Recv != nil && len(fd.Recv.List) > 0 {
				switch t := fd.Recv.List[0].Type.(type) {
				case *ast.StarExpr:
					if id, ok := t.X.(*ast.Ident); ok {
						r = id.Name
					}
				case *ast.Ident:
					r = t.Name
				}
				if len(fd.Recv.List[0].Names) > 0 {
					recvName = fd.Recv.List[0].Names[0].Name
				} else {
					recvName = "verifRecv"
					fd.Recv.List[0].Names = []*ast.Ident{ast.NewIdent(recvName)}
				}
			}
			if r != s.recv {
				continue
			}
			var args []ast.Expr
			if recvName != "" {
				args = append(args, ast.NewIdent(recvName))
			}
			for i, p := range fd.Type.Params.List {
				if len(p.Names) == 0 {
					n := fmt.Sprintf("verifArg%d", i)
					p.Names = []*ast.Ident{ast.NewIdent(n)}
				}
				for _, n := range p.Names {
					if n.Name == "_" {
						n.Name = fmt.Sprintf("verifArg%d", i)
					}
					args = append(args, ast.NewIdent(n.Name))
				}
			}
			call := &ast.CallExpr{Fun: ast.NewIdent(s.hook), Args: args}
			if _, variadic := lastVariadic(fd); variadic {
				call.Ellipsis = token.Pos(1)
			}
			var stmt ast.Stmt
			if fd.Type.Results != nil && len(fd.Type.Results.List) > 0 {
				stmt = &ast.ReturnStmt{Results: []ast.Expr{call}}
			} else {
				stmt = &ast.BlockStmt{List: []ast.Stmt{&ast.ExprStmt{X: call}, &ast.ReturnStmt{}}}
			}
			// keep the original body (and its imports) behind a guard; a hook that calls the original
			// function (conditional stubs) must reach the original body: re-entrancy flag
			flag := "verifIn_" + s.recv + "_" + s.name
			guardBody := []ast.Stmt{
				&ast.AssignStmt{Lhs: []ast.Expr{ast.NewIdent(flag)}, Tok: token.ASSIGN, Rhs: []ast.Expr{ast.NewIdent("true")}},
				&ast.DeferStmt{Call: &ast.CallExpr{Fun: &ast.FuncLit{Type: &ast.FuncType{Params: &ast.FieldList{}}, Body: &ast.BlockStmt{List: []ast.Stmt{
					&ast.AssignStmt{Lhs: []ast.Expr{ast.NewIdent(flag)}, Tok: token.ASSIGN, Rhs: []ast.Expr{ast.NewIdent("false")}}}}}}},
				stmt,
			}
			guard := &ast.IfStmt{Cond: &ast.BinaryExpr{X: ast.NewIdent("verifHooked"), Op: token.LAND, Y: &ast.UnaryExpr{Op: token.NOT, X: ast.NewIdent(flag)}}, Body: &ast.BlockStmt{List: guardBody}}
			fd.Body.List = append([]ast.Stmt{guard}, fd.Body.List...)
			flags = append(flags, flag)
		}
	}
	var buf bytes.Buffer
	if err := printer.Fprint(&buf, fset, f); err != nil {
		return nil, err
	}
	// unused imports after removing bodies would not compile: keep them alive
	out := buf.String()
	for _, fl := range flags {
		out += "\nvar " + fl + " bool\n"
	}
	var keep strings.Builder
	for _, imp := range f.Imports {
		name := ""
		if imp.Name != nil {
			name = imp.Name.Name
			if name == "_" || name == "." {
				continue
			}
		} else {
			p := strings.Trim(imp.Path.Value, `"`)
			name = p[strings.LastIndex(p, "/")+1:]
			if strings.HasPrefix(name, "v") && len(name) <= 3 && strings.Count(p, "/") > 0 {
				// .../v3 style module suffix: use the previous element
				q := p[:strings.LastIndex(p, "/")]
				name = q[strings.LastIndex(q, "/")+1:]
			}
			name = strings.ReplaceAll(name, "-", "_")
			name = strings.TrimPrefix(name, "go_")
		}
		_ = name
	}
	_ = keep
	return []byte(out), nil
}

func lastVariadic(fd *ast.FuncDecl) (string, bool) {
	ps := fd.Type.Params.List
	if len(ps) == 0 {
		return "", false
	}
	if _, ok := ps[len(ps)-1].Type.(*ast.Ellipsis); ok {
		return "", true
	}
	return "", false
}

// Replay writes a replay directory for the counterexample and runs it.  ok means the
// named assertion failed in the native run as well.
func (w *World) Replay(id string, hs HarnessSpec, assertName string, cx Cex, n int) (dir string, ok bool, output string) {
	vd := verifDir()
	dir = filepath.Join(vd, "replays", id, fmt.Sprintf("%s-%s-%d", hs.Fn, sanitize(assertName), n))
	os.RemoveAll(dir)
	os.MkdirAll(dir, 0o755)
	mb, _ := json.MarshalIndent(cx.Model, "", " ")
	os.WriteFile(filepath.Join(dir, "model.json"), mb, 0o644)
	overlay := map[string]string{}
	ov, _ := harnessOverlay(w.Harness)
	nativeTmpl, err := os.ReadFile(filepath.Join(w.Harness, "rt", "verif_rt_native.go.tmpl"))
	if err != nil {
		return dir, false, err.Error()
	}
	for pkg, files := range ov {
		pd := filepath.Join(dir, pkg)
		os.MkdirAll(pd, 0o755)
		for _, f := range files {
			if _, dropped := w.ld.Dropped[filepath.Join(w.Repo, pkg, "zz_"+filepath.Base(f))]; dropped {
				continue // does not compile against the current tree (see Loaded.Dropped)
			}
			src, _ := os.ReadFile(f)
			s := strings.Replace(string(src), "//go:build verif_harness", "// (harness)", 1)
			dst := filepath.Join(pd, filepath.Base(f))
			os.WriteFile(dst, []byte(s), 0o644)
			overlay[filepath.Join(w.Repo, pkg, "zz_"+filepath.Base(f))] = dst
		}
		rt := strings.Replace(string(nativeTmpl), "package PKG", "package "+filepath.Base(pkg), 1)
		dst := filepath.Join(pd, "verif_rt_native.go")
		os.WriteFile(dst, []byte(rt), 0o644)
		overlay[filepath.Join(w.Repo, pkg, "zz_verif_rt_native.go")] = dst
	}
	for file, sites := range w.hookSites() {
		src, err := rewriteHooked(file, sites)
		if err != nil {
			return dir, false, "rewrite " + file + ": " + err.Error()
		}
		rel, _ := filepath.Rel(w.Repo, file)
		dst := filepath.Join(dir, filepath.Dir(rel), "hooked_"+filepath.Base(file))
		os.MkdirAll(filepath.Dir(dst), 0o755)
		os.WriteFile(dst, src, 0o644)
		overlay[file] = dst
	}
	test := fmt.Sprintf(`package %s

import "testing"

func TestVerifReplay(t *testing.T) {
	if verifReplayMain(%q, %s) {
		t.Fatalf("REPLAY-REPRODUCED %s")
	}
}
`, filepath.Base(hs.Pkg), assertName, hs.Fn, assertName)
	tdst := filepath.Join(dir, hs.Pkg, "verif_replay_test.go")
	os.WriteFile(tdst, []byte(test), 0o644)
	overlay[filepath.Join(w.Repo, hs.Pkg, "zz_verif_replay_test.go")] = tdst
	ob, _ := json.MarshalIndent(map[string]interface{}{"Replace": overlay}, "", " ")
	os.WriteFile(filepath.Join(dir, "overlay.json"), ob, 0o644)
	cmdline := fmt.Sprintf("cd %s && VERIF_TIER="+os.Getenv("VERIF_TIER")+" VERIF_MODEL=%s GOFLAGS=-mod=mod GOPROXY=off GOSUMDB=off GOTOOLCHAIN=local timeout 600 go test -vet=off -count=1 -overlay %s -run '^TestVerifReplay$' -v ./%s/\n",
		w.Repo, filepath.Join(dir, "model.json"), filepath.Join(dir, "overlay.json"), hs.Pkg)
	os.WriteFile(filepath.Join(dir, "cmd.sh"), []byte("#!/bin/sh\n# replays the solver counterexample against the real build; exit status 1 = reproduced\n"+cmdline), 0o755)
	t0 := time.Now()
	cmd := exec.Command("/bin/sh", filepath.Join(dir, "cmd.sh"))
	out, _ := cmd.CombinedOutput()
	output = string(out)
	os.WriteFile(filepath.Join(dir, "output.txt"), []byte(output+fmt.Sprintf("\n(replay took %v)\n", time.Since(t0))), 0o644)
	ok = strings.Contains(output, "REPLAY-REPRODUCED "+assertName) || strings.Contains(output, "REPLAY-ASSERT-FAILED "+assertName+"\n") || strings.Contains(output, "REPLAY-ASSERT-FAILED "+assertName+" ")
	if assertName == "no-panic" && strings.Contains(output, "REPLAY-PANIC") {
		ok = true
	}
	if i := strings.Index(output, "REPLAY-ASSUME-FAILED"); i >= 0 {
		// an assumption that fails only after the target assertion has already failed does not matter
		j := strings.Index(output, "REPLAY-ASSERT-FAILED "+assertName)
		if j < 0 || j > i {
			ok = false
		}
	}
	return dir, ok, output
}

// ---- native replay of BMC schedules ----

type bmcStepJSON struct {
	Threads []int  `json:"threads"`
	Park    bool   `json:"park"`
	NoGrant []int  `json:"nogrant"` // threads whose step is the completion of a blocking receive: natively the sender's step completes it, no permission is consumed
	Clock   uint64 `json:"clock"`
	Desc    string `json:"desc"`
}

type bmcScheduleJSON struct {
	Threads []string            `json:"threads"`
	Steps   []bmcStepJSON       `json:"steps"`
	Starts  map[string][]string `json:"starts"` // per thread index: "file:line" of each fired transaction's first event
	Nondet  map[string]map[string][]uint64 `json:"nondet"`
	Vars    map[string]uint64   `json:"vars"` // setup-phase inputs
}

// ReplayBMC instruments the sources at the schedule points of the system, forces the schedule of the
// counterexample natively (with the race detector on) and reports whether the obligation fails there.
func (w *World) ReplayBMC(id string, bs BMCSpec, sys *bmcSystem, ob *obligation, model map[string]uint64, dir string) (ok bool, output string) {
	sched := bmcScheduleJSON{Starts: map[string][]string{}, Nondet: map[string]map[string][]uint64{}, Vars: map[string]uint64{}}
	for _, tt := range sys.trees {
		sched.Threads = append(sched.Threads, tt.name)
	}
	posOf := func(ev *Event) string {
		if !ev.Pos.IsValid() {
			return ""
		}
		p := w.ld.Fset.Position(ev.Pos)
		return fmt.Sprintf("%s:%d", filepath.Base(p.Filename), p.Line)
	}
	clockKey := ""
	for _, c := range sys.cells {
		if strings.HasSuffix(c.Desc, ".ghostClock") {
			clockKey = c.Key
		}
	}
	for k := 0; k < sys.K; k++ {
		var st bmcStepJSON
		for t := 0; t < sys.nthreads; t++ {
			a, b := model[fmt.Sprintf("pc%d!%d", t, k)], model[fmt.Sprintf("pc%d!%d", t, k+1)]
			if a == b {
				continue
			}
			for _, tx := range sys.txs[t] {
				if uint64(tx.id) == a {
					st.Threads = append(st.Threads, t)
					if tx.first.Kind == "park" {
						st.Park = true
					}
					if tx.first.Kind == "recv" {
						st.NoGrant = append(st.NoGrant, t)
					}
					st.Desc += fmt.Sprintf("%s:%s@%s ", sys.trees[t].name, tx.first.Kind, posOf(tx.first))
					key := fmt.Sprint(t)
					sched.Starts[key] = append(sched.Starts[key], posOf(tx.first))
				}
			}
		}
		if len(st.Threads) == 0 {
			continue
		}
		if clockKey != "" {
			st.Clock = model[fmt.Sprintf("%s!%d", clockKey, k+1)]
		}
		sched.Steps = append(sched.Steps, st)
	}
	for k, v := range model {
		if !strings.Contains(k, "!") && !strings.Contains(k, "#") {
			sched.Vars[k] = v
		}
	}
	// thread-local nondeterministic draws, per thread and base name, in tree order
	for t, tt := range sys.trees {
		m := map[string][]uint64{}
		seen := map[string]bool{}
		var walk func(n *TNode)
		visited := map[*TNode]bool{}
		walk = func(n *TNode) {
			if visited[n] {
				return
			}
			visited[n] = true
			if n.ev != nil && n.ev.Kind == "nondet" && !seen[n.ev.Var.Name] {
				seen[n.ev.Var.Name] = true
				m[n.ev.Name] = append(m[n.ev.Name], model[n.ev.Var.Name])
			}
			for _, e := range n.edges {
				walk(e.to)
			}
		}
		walk(tt.root)
		sched.Nondet[fmt.Sprint(t)] = m
	}
	sb, _ := json.MarshalIndent(sched, "", " ")
	os.WriteFile(filepath.Join(dir, "schedule.json"), sb, 0o644)

	// yield lines per source file: first events of all transactions
	yields := map[string]map[int]bool{}
	for t := range sys.txs {
		for _, tx := range sys.txs[t] {
			if !tx.first.Pos.IsValid() {
				continue
			}
			p := w.ld.Fset.Position(tx.first.Pos)
			if yields[p.Filename] == nil {
				yields[p.Filename] = map[int]bool{}
			}
			yields[p.Filename][p.Line] = true
		}
	}
	overlay := map[string]string{}
	ov, _ := harnessOverlay(w.Harness)
	nativeTmpl, err := os.ReadFile(filepath.Join(w.Harness, "rt", "verif_rt_native.go.tmpl"))
	if err != nil {
		return false, err.Error()
	}
	hookSites := w.hookSites()
	for pkg, files := range ov {
		pd := filepath.Join(dir, pkg)
		os.MkdirAll(pd, 0o755)
		for _, f := range files {
			if _, dropped := w.ld.Dropped[filepath.Join(w.Repo, pkg, "zz_"+filepath.Base(f))]; dropped {
				continue // does not compile against the current tree (see Loaded.Dropped)
			}
			src, _ := os.ReadFile(f)
			s := strings.Replace(string(src), "//go:build verif_harness", "// (harness)", 1)
			virt := filepath.Join(w.Repo, pkg, "zz_"+filepath.Base(f))
			if yl := yields[virt]; len(yl) > 0 {
				if out, err := rewriteSource(virt, []byte(s), nil, yl); err == nil {
					s = string(out)
				}
			}
			dst := filepath.Join(pd, filepath.Base(f))
			os.WriteFile(dst, []byte(s), 0o644)
			overlay[virt] = dst
		}
		rt := strings.Replace(string(nativeTmpl), "package PKG", "package "+filepath.Base(pkg), 1)
		dst := filepath.Join(pd, "verif_rt_native.go")
		os.WriteFile(dst, []byte(rt), 0o644)
		overlay[filepath.Join(w.Repo, pkg, "zz_verif_rt_native.go")] = dst
	}
	files := map[string]bool{}
	for f := range hookSites {
		files[f] = true
	}
	for f := range yields {
		if strings.HasPrefix(f, w.Repo) && !strings.Contains(filepath.Base(f), "zz_") {
			files[f] = true
		}
	}
	for file := range files {
		src, err := rewriteSource(file, nil, hookSites[file], yields[file])
		if err != nil {
			return false, "rewrite " + file + ": " + err.Error()
		}
		rel, _ := filepath.Rel(w.Repo, file)
		dst := filepath.Join(dir, filepath.Dir(rel), "instr_"+filepath.Base(file))
		os.MkdirAll(filepath.Dir(dst), 0o755)
		os.WriteFile(dst, src, 0o644)
		overlay[file] = dst
	}
	target := ob.name
	if ob.kind == "complete" {
		target = "no-deadlock"
	}
	test := fmt.Sprintf(`package %s

import "testing"

func TestVerifReplay(t *testing.T) {
	verifLoadSchedule()
	if verifReplayMain(%q, %s) {
		t.Fatalf("REPLAY-REPRODUCED")
	}
}
`, filepath.Base(bs.Pkg), target, bs.Fn)
	tdst := filepath.Join(dir, bs.Pkg, "verif_replay_test.go")
	os.WriteFile(tdst, []byte(test), 0o644)
	overlay[filepath.Join(w.Repo, bs.Pkg, "zz_verif_replay_test.go")] = tdst
	mb, _ := json.MarshalIndent(sched.Vars, "", " ")
	os.WriteFile(filepath.Join(dir, "model.json"), mb, 0o644)
	obj, _ := json.MarshalIndent(map[string]interface{}{"Replace": overlay}, "", " ")
	os.WriteFile(filepath.Join(dir, "overlay.json"), obj, 0o644)
	cmdline := fmt.Sprintf("cd %s && VERIF_MODEL=%s VERIF_SCHEDULE=%s GOFLAGS=-mod=mod GOPROXY=off GOSUMDB=off GOTOOLCHAIN=local timeout 900 go test -race -vet=off -count=1 -overlay %s -run '^TestVerifReplay$' -v ./%s/\n",
		w.Repo, filepath.Join(dir, "model.json"), filepath.Join(dir, "schedule.json"), filepath.Join(dir, "overlay.json"), bs.Pkg)
	os.WriteFile(filepath.Join(dir, "cmd.sh"), []byte("#!/bin/sh\n# forces the solver's schedule on the real code (race detector on)\n"+cmdline), 0o755)
	out, _ := exec.Command("/bin/sh", filepath.Join(dir, "cmd.sh")).CombinedOutput()
	output = string(out)
	os.WriteFile(filepath.Join(dir, "output.txt"), out, 0o644)
	switch ob.kind {
	case "race":
		ok = strings.Contains(output, "DATA RACE")
		if !ok {
			// the forced schedule could not be followed: let the Go scheduler interleave the same harness
			// under the race detector a number of times
			free := strings.Replace(cmdline, "VERIF_SCHEDULE="+filepath.Join(dir, "schedule.json"), "VERIF_SCHEDULE=", 1)
			free = strings.Replace(free, "-count=1", "-count=40", 1)
			os.WriteFile(filepath.Join(dir, "cmd_free.sh"), []byte("#!/bin/sh\n# same harness, Go scheduler, race detector on, 40 runs\n"+free), 0o755)
			out2, _ := exec.Command("/bin/sh", filepath.Join(dir, "cmd_free.sh")).CombinedOutput()
			os.WriteFile(filepath.Join(dir, "output_free.txt"), out2, 0o644)
			if strings.Contains(string(out2), "DATA RACE") {
				ok = true
				output += "\n[free-scheduling run]\n" + string(out2)
			}
		}
	case "complete":
		ok = strings.Contains(output, "REPLAY-ASSERT-FAILED no-deadlock")
	case "nopanic":
		ok = strings.Contains(output, "REPLAY-PANIC")
	default:
		ok = strings.Contains(output, "REPLAY-ASSERT-FAILED "+ob.name)
	}
	return ok, output
}
