package main

// Light-weight loader: pike's own packages (plus the overlaid harness files) are
// type-checked from /repo's current source on every run; every other package is
// imported from compiler export data (go list -export), which keeps the memory
// footprint small.  A few dependency packages whose bodies the executor needs
// (container/list, groupcache/lru, elton, vicanso/upstream, ...) are loaded from
// source as "donors" and linked to body-less functions by name.

import (
	"bytes"
	"encoding/json"
	"fmt"
	"go/ast"
	"go/parser"
	"go/token"
	"go/types"
	"os"
	"os/exec"
	"path/filepath"
	"sort"
	"strings"

	"golang.org/x/tools/go/gcexportdata"
	"golang.org/x/tools/go/ssa"
)

const pikeMod = "github.com/vicanso/pike"

type listPkg struct {
	ImportPath string
	Dir        string
	GoFiles    []string
	Export     string
	Imports    []string
	ImportMap  map[string]string
	Standard   bool
}

type Loaded struct {
	Fset    *token.FileSet
	Prog    *ssa.Program
	List    map[string]*listPkg
	Src     map[string]*ssa.Package // source-built packages by import path (pike + donors)
	Types   map[string]*types.Package
	Infos   map[string]*types.Info
	Files   map[string][]*ast.File
	donorFn map[string]*ssa.Function // by full name
	imports map[string]*types.Package
	// SrcFiles lists every source file that was type-checked from source
	SrcFiles []string
	// Dropped: harness files that did not type-check against the current tree (file -> first error)
	Dropped map[string]string
}

func goEnv() []string {
	env := os.Environ()
	env = append(env, "GOFLAGS=-mod=mod", "GOPROXY=off", "GOSUMDB=off", "GOTOOLCHAIN=local")
	return env
}

func goList(repo string, patterns []string) (map[string]*listPkg, error) {
	args := append([]string{"list", "-export", "-deps", "-json=ImportPath,Dir,GoFiles,Export,Imports,ImportMap,Standard"}, patterns...)
	cmd := exec.Command("go", args...)
	cmd.Dir = repo
	cmd.Env = goEnv()
	var out, errb bytes.Buffer
	cmd.Stdout = &out
	cmd.Stderr = &errb
	if err := cmd.Run(); err != nil {
		return nil, fmt.Errorf("go list: %v: %s", err, errb.String())
	}
	dec := json.NewDecoder(&out)
	m := map[string]*listPkg{}
	for dec.More() {
		var p listPkg
		if err := dec.Decode(&p); err != nil {
			return nil, err
		}
		pp := p
		m[p.ImportPath] = &pp
	}
	return m, nil
}

type loaderImporter struct {
	ld      *Loaded
	from    *listPkg
	srcWant map[string]bool
	check   func(path string) (*types.Package, error)
}

func (li *loaderImporter) Import(path string) (*types.Package, error) {
	return li.ImportFrom(path, "", 0)
}

func (li *loaderImporter) ImportFrom(path, dir string, mode types.ImportMode) (*types.Package, error) {
	if path == "unsafe" {
		return types.Unsafe, nil
	}
	if li.from != nil && li.from.ImportMap != nil {
		if r, ok := li.from.ImportMap[path]; ok {
			path = r
		}
	}
	if li.srcWant[path] {
		return li.check(path)
	}
	return li.ld.importExport(path)
}

func (ld *Loaded) importExport(path string) (*types.Package, error) {
	if p, ok := ld.imports[path]; ok && p.Complete() {
		return p, nil
	}
	lp := ld.List[path]
	if lp == nil || lp.Export == "" {
		return nil, fmt.Errorf("no export data for %s", path)
	}
	f, err := os.Open(lp.Export)
	if err != nil {
		return nil, err
	}
	defer f.Close()
	r, err := gcexportdata.NewReader(f)
	if err != nil {
		return nil, err
	}
	return gcexportdata.Read(r, ld.Fset, ld.imports, path)
}

// Load type-checks the pike packages named in srcPkgs (import paths relative to
// the module, e.g. "cache") from source with the overlay files added, and the
// donor packages from source in isolation.
func Load(repo string, pikePkgs []string, overlay map[string][]string, donors []string) (*Loaded, error) {
	patterns := []string{}
	for _, p := range pikePkgs {
		patterns = append(patterns, "./"+p)
	}
	patterns = append(patterns, donors...)
	list, err := goList(repo, patterns)
	if err != nil {
		return nil, err
	}
	ld := &Loaded{
		Fset:    token.NewFileSet(),
		List:    list,
		Src:     map[string]*ssa.Package{},
		Types:   map[string]*types.Package{},
		Infos:   map[string]*types.Info{},
		Files:   map[string][]*ast.File{},
		donorFn: map[string]*ssa.Function{},
		imports: map[string]*types.Package{},
	}
	// every pike package in the dependency cone is checked from source
	srcWant := map[string]bool{}
	for path := range list {
		if path == pikeMod || strings.HasPrefix(path, pikeMod+"/") {
			srcWant[path] = true
		}
	}
	var check func(path string) (*types.Package, error)
	inProgress := map[string]bool{}
	var order []string
	check = func(path string) (*types.Package, error) {
		if p, ok := ld.Types[path]; ok {
			return p, nil
		}
		if inProgress[path] {
			return nil, fmt.Errorf("import cycle at %s", path)
		}
		inProgress[path] = true
		lp := list[path]
		if lp == nil {
			return nil, fmt.Errorf("package %s not listed", path)
		}
		var files []*ast.File
		names := append([]string{}, lp.GoFiles...)
		for _, n := range names {
			fn := filepath.Join(lp.Dir, n)
			f, err := parser.ParseFile(ld.Fset, fn, nil, parser.ParseComments|parser.SkipObjectResolution)
			if err != nil {
				return nil, err
			}
			files = append(files, f)
			ld.SrcFiles = append(ld.SrcFiles, fn)
		}
		rel := strings.TrimPrefix(strings.TrimPrefix(path, pikeMod), "/")
		for _, ov := range overlay[rel] {
			src, err := os.ReadFile(ov)
			if err != nil {
				return nil, err
			}
			// strip the build constraint that keeps harness files out of normal builds
			s := strings.Replace(string(src), "//go:build verif_harness", "// (harness)", 1)
			f, err := parser.ParseFile(ld.Fset, filepath.Join(lp.Dir, "zz_"+filepath.Base(ov)), s, parser.ParseComments|parser.SkipObjectResolution)
			if err != nil {
				return nil, err
			}
			files = append(files, f)
		}
		// Harness files that do not type-check against the current tree (a renamed unexported field, a
		// changed signature) are dropped one by one, so that only the properties whose harnesses live in
		// them become inconclusive; an error in pike's own files is fatal.
		var info *types.Info
		var pkg *types.Package
		for {
			info = &types.Info{
				Types:      map[ast.Expr]types.TypeAndValue{},
				Defs:       map[*ast.Ident]types.Object{},
				Uses:       map[*ast.Ident]types.Object{},
				Implicits:  map[ast.Node]types.Object{},
				Selections: map[*ast.SelectorExpr]*types.Selection{},
				Scopes:     map[ast.Node]*types.Scope{},
				Instances:  map[*ast.Ident]types.Instance{},
			}
			var firstErr error
			badFiles := map[string]string{}
			conf := types.Config{
				Importer: &loaderImporter{ld: ld, from: lp, srcWant: srcWant, check: check},
				Error: func(err error) {
					if te, ok := err.(types.Error); ok && te.Pos.IsValid() {
						fn := te.Fset.Position(te.Pos).Filename
						base := filepath.Base(fn)
						if strings.HasPrefix(base, "zz_") && !strings.HasPrefix(base, "zz_verif_rt") {
							if _, seen := badFiles[fn]; !seen {
								badFiles[fn] = err.Error()
							}
							return
						}
					}
					if firstErr == nil {
						firstErr = err
					}
				},
				Sizes: types.SizesFor("gc", "amd64"),
			}
			pkg, _ = conf.Check(path, ld.Fset, files, info)
			if firstErr != nil {
				return nil, fmt.Errorf("type-check %s: %v", path, firstErr)
			}
			if len(badFiles) == 0 {
				break
			}
			var keep []*ast.File
			for _, f := range files {
				fn := ld.Fset.Position(f.Pos()).Filename
				if msg, bad := badFiles[fn]; bad {
					if ld.Dropped == nil {
						ld.Dropped = map[string]string{}
					}
					ld.Dropped[fn] = msg
					continue
				}
				keep = append(keep, f)
			}
			files = keep
		}
		// language version of the module (go.mod): go/ssa picks the loop-variable semantics from it
		// (per-loop variables before go1.22, per-iteration from go1.22 on)
		if v := moduleGoVersion(repo); v != "" {
			info.FileVersions = map[*ast.File]string{}
			for _, f := range files {
				info.FileVersions[f] = v
			}
		}
		ld.Types[path] = pkg
		ld.Infos[path] = info
		ld.Files[path] = files
		order = append(order, path)
		return pkg, nil
	}
	var want []string
	for p := range srcWant {
		want = append(want, p)
	}
	sort.Strings(want)
	for _, p := range want {
		if _, err := check(p); err != nil {
			return nil, err
		}
	}
	mode := ssa.InstantiateGenerics | ssa.SanityCheckFunctions*0
	prog := ssa.NewProgram(ld.Fset, mode)
	ld.Prog = prog
	// create body-less SSA packages for everything imported from export data
	created := map[*types.Package]bool{}
	var createAll func(p *types.Package)
	createAll = func(p *types.Package) {
		if created[p] {
			return
		}
		created[p] = true
		for _, q := range p.Imports() {
			createAll(q)
		}
		if _, isSrc := ld.Types[p.Path()]; isSrc && ld.Types[p.Path()] == p {
			return
		}
		prog.CreatePackage(p, nil, nil, true)
	}
	for _, path := range order {
		pkg := ld.Types[path]
		for _, q := range pkg.Imports() {
			createAll(q)
		}
		sp := prog.CreatePackage(pkg, ld.Files[path], ld.Infos[path], false)
		ld.Src[path] = sp
	}
	for _, path := range order {
		ld.Src[path].Build()
	}
	// donors: each in its own ssa.Program, imports from export data only
	for _, d := range donors {
		if err := ld.loadDonor(d); err != nil {
			return nil, fmt.Errorf("donor %s: %v", d, err)
		}
	}
	return ld, nil
}

func (ld *Loaded) loadDonor(path string) error {
	lp := ld.List[path]
	if lp == nil {
		return fmt.Errorf("not listed")
	}
	var files []*ast.File
	for _, n := range lp.GoFiles {
		fn := filepath.Join(lp.Dir, n)
		f, err := parser.ParseFile(ld.Fset, fn, nil, parser.SkipObjectResolution)
		if err != nil {
			return err
		}
		files = append(files, f)
	}
	info := &types.Info{
		Types:      map[ast.Expr]types.TypeAndValue{},
		Defs:       map[*ast.Ident]types.Object{},
		Uses:       map[*ast.Ident]types.Object{},
		Implicits:  map[ast.Node]types.Object{},
		Selections: map[*ast.SelectorExpr]*types.Selection{},
		Scopes:     map[ast.Node]*types.Scope{},
		Instances:  map[*ast.Ident]types.Instance{},
	}
	var firstErr error
	conf := types.Config{
		Importer: &loaderImporter{ld: ld, from: lp, srcWant: map[string]bool{}},
		Error: func(err error) {
			if firstErr == nil {
				firstErr = err
			}
		},
		Sizes: types.SizesFor("gc", "amd64"),
	}
	pkg, _ := conf.Check(path, ld.Fset, files, info)
	if firstErr != nil {
		return firstErr
	}
	prog := ssa.NewProgram(ld.Fset, ssa.InstantiateGenerics)
	created := map[*types.Package]bool{}
	var createAll func(p *types.Package)
	createAll = func(p *types.Package) {
		if created[p] {
			return
		}
		created[p] = true
		for _, q := range p.Imports() {
			createAll(q)
		}
		prog.CreatePackage(p, nil, nil, true)
	}
	for _, q := range pkg.Imports() {
		createAll(q)
	}
	sp := prog.CreatePackage(pkg, files, info, false)
	sp.Build()
	ld.Src["donor:"+path] = sp
	// register functions and methods by full name
	for _, m := range sp.Members {
		switch m := m.(type) {
		case *ssa.Function:
			ld.donorFn[m.String()] = m
		case *ssa.Type:
			for _, t := range []types.Type{m.Type(), types.NewPointer(m.Type())} {
				ms := prog.MethodSets.MethodSet(t)
				for i := 0; i < ms.Len(); i++ {
					if f := prog.MethodValue(ms.At(i)); f != nil && f.Blocks != nil {
						ld.donorFn[f.String()] = f
					}
				}
			}
		}
	}
	return nil
}

// Func finds a function (or method "(*T).m" / "T.m") of a source-loaded pike package.
func (ld *Loaded) Func(pkgRel, name string) *ssa.Function {
	sp := ld.Src[pikeMod+"/"+pkgRel]
	if sp == nil {
		return nil
	}
	if f := sp.Func(name); f != nil {
		return f
	}
	return nil
}

// moduleGoVersion returns "go1.N" from the go directive of <repo>/go.mod ("" when absent).
func moduleGoVersion(repo string) string {
	b, err := os.ReadFile(filepath.Join(repo, "go.mod"))
	if err != nil {
		return ""
	}
	for _, l := range strings.Split(string(b), "\n") {
		f := strings.Fields(l)
		if len(f) == 2 && f[0] == "go" {
			return "go" + f[1]
		}
	}
	return ""
}
