package main

import (
	"strings"

	"golang.org/x/tools/go/ssa"
)

func (w *World) methodByFullName(pkgPath, full string) *ssa.Function {
	sp := w.ld.Src[pkgPath]
	if sp == nil {
		return nil
	}
	for _, m := range sp.Members {
		t, ok := m.(*ssa.Type)
		if !ok {
			continue
		}
		for _, ty := range []interface{}{t.Type()} {
			_ = ty
		}
		ms := w.ld.Prog.MethodSets.MethodSet(t.Type())
		for i := 0; i < ms.Len(); i++ {
			if f := w.ld.Prog.MethodValue(ms.At(i)); f != nil && f.String() == full {
				return f
			}
		}
		pms := w.ld.Prog.MethodSets.MethodSet(ptrTo(t.Type()))
		for i := 0; i < pms.Len(); i++ {
			if f := w.ld.Prog.MethodValue(pms.At(i)); f != nil && f.String() == full {
				return f
			}
		}
	}
	return nil
}

var initCache = []string{"util", "store", "compress", "cache"}
var initServer = []string{"util", "store", "compress", "cache", "location", "server"}

func propRegistry() map[string]PropSpec {
	reg := map[string]PropSpec{}
	add := func(p PropSpec) { reg[p.ID] = p }

	bmcAssume := []string{
		"bounded: N request threads (2-3) on one cache entry, each one request; K scheduler steps = sum of the threads' longest transaction chains (every complete execution fits; a thread not finished at step K is blocked for ever)",
		"atomicity reduction (Lipton): lock acquisitions are right-movers, releases left-movers, accesses to cells consistently protected by a held lock both-movers; every other shared access, channel operation and lock acquisition starts a new scheduler-visible transaction; environment stubs (clock, ghost counters) are atomic",
		"clock: free non-decreasing values in [1,64), lifetimes and hit-for-pass periods < 32 (only the order matters for interleavings; full 64-bit arithmetic is covered by the sequential C04/C07 checks)",
		"sequentially consistent memory; slices stored in shared fields are modelled by value (bounded sequence with an unwinding obligation)",
		"no eviction or purge of the entry during the run (purge: C18)",
	}
	add(PropSpec{
		ID:    "C01",
		Level: "model_checking",
		Harnesses: []HarnessSpec{
			// the middleware's part of single flight: only the fetcher completes a fetch; a request that was
			// merely passed (hit-for-pass) never changes the entry, so it cannot end another request's fetch
			{Pkg: "server", Fn: "Harness_MW_pass_leaves_entry", Init: []string{"util", "store", "compress", "cache", "location", "upstream", "server"}, Reach: []string{"MW.pass.end", "MW.pass.nested"}},
		},
		BMC: []BMCSpec{
			{Name: "entry3", Pkg: "cache", Fn: "Harness_BMC_entry3", Init: initCache, Only: []string{"C01.", "every-thread-completes", "race-free"}},
			{Name: "store2", Pkg: "cache", Fn: "Harness_BMC_entry_store2", Init: initCache, Only: []string{"C01.", "every-thread-completes", "race-free"}},
			{Name: "entry4", Pkg: "cache", Fn: "Harness_BMC_entry4", Init: initCache, Tier: "thorough", TimeoutSec: 3600, Only: []string{"C01.", "every-thread-completes", "race-free"}},
			{Name: "store3", Pkg: "cache", Fn: "Harness_BMC_entry_store3", Init: initCache, Tier: "thorough", TimeoutSec: 3600, Only: []string{"C01.", "every-thread-completes", "race-free"}},
		},
		Explanation: "Bounded model checking of the real (*httpCache).Get/get/Cacheable/HitForPass (SSA of the current tree) for three concurrent requests on one key under a symbolic scheduler: the schedule, every clock reading (so expiry can fall at any point, also between a waiter's wake-up and its resumption) and every fetch outcome are solver variables. Obligations: at most one request of status fetching is at the upstream at any step; the status a request is given is always decided (fetching, hit or hit-for-pass); every request completes; the entry's state (status, response, waiter list, timestamps) is never accessed by two requests at once without a common lock (the race obligations appear only when some access is not consistently protected).",
		Assumptions: bmcAssume,
		Encoded:     []string{"cache.(*httpCache).Get", "cache.(*httpCache).get", "cache.(*httpCache).Cacheable", "cache.(*httpCache).HitForPass"},
		Bounds:      map[string]string{"threads": "3 requests on one key", "K": "computed from the transaction graph (21 on the current tree)"},
	})
	add(PropSpec{
		ID:    "C02",
		Level: "model_checking",
		Harnesses: []HarnessSpec{
			{Pkg: "server", Fn: "Harness_MW_cache", Init: []string{"util", "store", "compress", "cache", "location", "upstream", "server"}, Reach: []string{"MW.passed", "MW.cold", "MW.second.hit", "MW.second.pass", "MW.second.refetch"}},
		},
		BMC: []BMCSpec{
			{Name: "entry3", Pkg: "cache", Fn: "Harness_BMC_entry3", Init: initCache, Only: []string{"C02.", "every-thread-completes", "no-panic", "C01.status", "race-free"}},
			{Name: "store2", Pkg: "cache", Fn: "Harness_BMC_entry_store2", Init: initCache, Only: []string{"C02.", "every-thread-completes", "no-panic", "C01.status", "race-free"}},
			{Name: "entry4", Pkg: "cache", Fn: "Harness_BMC_entry4", Init: initCache, Tier: "thorough", TimeoutSec: 3600, Only: []string{"C02.", "every-thread-completes", "no-panic", "C01.status", "race-free"}},
			{Name: "store3", Pkg: "cache", Fn: "Harness_BMC_entry_store3", Init: initCache, Tier: "thorough", TimeoutSec: 3600, Only: []string{"C02.", "every-thread-completes", "no-panic", "C01.status", "race-free"}},
		},
		Explanation: "Same transition system as C01 (three concurrent requests, symbolic scheduler/clock/outcomes: cacheable or uncacheable-or-failed i.e. HitForPass). Obligations: every thread completes within the step bound under a scheduler that always runs an enabled thread (so a request still parked or blocked at the bound is a lost wake-up or deadlock, including a waiter that registered but had not yet started to wait); fetchers get no response, hits always carry the fetched response; no panic.",
		Assumptions: bmcAssume,
		Encoded:     []string{"cache.(*httpCache).Get", "cache.(*httpCache).get", "cache.(*httpCache).Cacheable", "cache.(*httpCache).HitForPass"},
		Bounds:      map[string]string{"threads": "3", "outcomes": "cacheable / hit-for-pass per fetch, any sequence"},
	})
	add(PropSpec{
		ID:    "C20",
		Level: "model_checking",
		Harnesses: []HarnessSpec{
			{Pkg: "cache", Fn: "Harness_C20_publication_immutable", Init: initCache, Reach: []string{"C20.pub.cacheable", "C20.pub.hfp"}, EngineOnly: true},
			{Pkg: "cache", Fn: "Harness_C20_entry_discipline", Init: initCache, Reach: []string{"C20.entry-discipline.end"}, EngineOnly: true},
			{Pkg: "cache", Fn: "Harness_C20_shard_discipline", Init: initCache, Reach: []string{"C20.shard-discipline.end"}, EngineOnly: true},
			{Pkg: "server", Fn: "Harness_C20_server_discipline", Init: initServer, Reach: []string{"C20.server-discipline.end"}, EngineOnly: true},
			{Pkg: "server", Fn: "Harness_C20_server_snapshots", Init: initServer, Reach: []string{"C20.server-snapshots.end"}},
			{Pkg: "location", Fn: "Harness_C20_locations_discipline", Init: []string{"util", "location"}, Reach: []string{"C20.locations-discipline.end"}, EngineOnly: true},
		},
		BMC: []BMCSpec{
			{Name: "entry3", Pkg: "cache", Fn: "Harness_BMC_entry3", Init: initCache, Only: []string{"race-free", "no-panic", "C02.hit-carries", "every-thread-completes"}},
		},
		Explanation: "Data-race freedom on the transition system of C01: a lock-set analysis over all event trees classifies every shared cell; for every cell that is not consistently protected, the solver is asked for a reachable state in which two threads are simultaneously about to perform conflicting accesses (at least one write, no common lock). On the current tree every shared field of the entry is consistently protected by the entry mutex, so no race obligation remains; the obligations reappear as soon as an access loses its lock.",
		Assumptions: append(append([]string{}, bmcAssume...), "races inside libraries (sync.Map, elton's context pool) and the Go race detector's view of a full process under load are outside the claim"),
		Encoded:     []string{"cache.(*httpCache).Get", "cache.(*httpCache).get", "cache.(*httpCache).Cacheable", "cache.(*httpCache).HitForPass", "cache.(*httpCache).Age"},
		Bounds:      map[string]string{"threads": "3"},
	})

	add(PropSpec{
		ID: "C03",
		Harnesses: []HarnessSpec{
			{Pkg: "server", Fn: "Harness_C03_forward_once", Init: []string{"util", "store", "compress", "cache", "location", "upstream", "server"}, Reach: []string{"C03.forward.end"}},
			{Pkg: "server", Fn: "Harness_C03_maxage_quick", Init: []string{"util", "server"}, Tier: "quick", Reach: []string{"C03.maxage.end"}},
			{Pkg: "server", Fn: "Harness_C03_maxage_presence", Init: []string{"util", "server"}, Reach: []string{"C03.maxage.end"}},
			{Pkg: "server", Fn: "Harness_C03_maxage_twolines", Init: []string{"util", "server"}, Reach: []string{"C03.maxage.end"}},
			{Pkg: "server", Fn: "Harness_C03_age_overflow", Init: []string{"util", "server"}, Reach: []string{"C03.age.end"}},
			{Pkg: "server", Fn: "Harness_C03_structured", Init: []string{"util", "server"}, Reach: []string{"C03.struct.end"}},
			{Pkg: "server", Fn: "Harness_MW_cache", Init: []string{"util", "store", "compress", "cache", "location", "upstream", "server"}, Reach: []string{"MW.passed", "MW.cold", "MW.second.hit", "MW.second.pass", "MW.second.refetch"}},
			{Pkg: "server", Fn: "Harness_C03_maxage_thorough", Init: []string{"util", "server"}, Tier: "thorough", Reach: []string{"C03.maxage.end"}},
			{Pkg: "server", Fn: "Harness_C03_structured_thorough", Init: []string{"util", "server"}, Tier: "thorough", Reach: []string{"C03.struct.end"}},
		},
		Explanation: "Bounded symbolic execution of the real server.getCacheMaxAge (go/ssa of /repo's current source) against a short reference model written in the harness (differential oracle). Cache-Control, Age and Set-Cookie values are arbitrary ASCII byte strings up to the stated lengths (the length is case-split, the bytes are SMT variables); the regular expressions are taken from the real regexp.MustCompile literals and encoded as symbolic NFA simulations; strconv.Atoi is an engine intrinsic validated differentially. Every assertion instance is an SMT query (path condition AND NOT assertion) that z3 must answer unsat.",
		Assumptions: []string{
			"header bytes are ASCII (0x00-0x7f); non-ASCII bytes in Cache-Control/Age are outside the claim",
			"Cache-Control joined length <= 13 bytes quick / 15 thorough (one line), 9+9 (two lines); Age <= 3 bytes (9 in the Age harness); longer values, and therefore int64 overflow of the numbers, are outside the claim",
			"regexp semantics: leftmost-first, modelled for MatchString (any pattern without word boundaries) and FindStringSubmatch (prefix + one class+ capture); strconv.Atoi modelled per its documented behaviour (sign, digits, saturation)",
			"oracle = docs/cache-handler.md: Set-Cookie => 0; no Cache-Control => 0; contains no-cache/no-store/private (ASCII case-insensitive) => 0; first s-maxage=<digits> else first max-age=<digits>; minus Age when Age parses as a signed decimal",
		},
		Encoded: []string{"server.getCacheMaxAge"},
		Bounds:  map[string]string{"cache-control": "<=13 (quick) / <=16 (thorough) bytes, two-line variant 9+9", "age": "<=3 bytes; <=9 in the Age harness", "set-cookie": "<=1 byte (presence)"},
	})

	add(PropSpec{
		ID: "C04",
		Harnesses: []HarnessSpec{
			{Pkg: "cache", Fn: "Harness_C04_cacheable_establishes", Init: initCache, Reach: []string{"C04.cacheable.end"}, EngineOnly: true},
			{Pkg: "cache", Fn: "Harness_C04_get_step", Init: initCache, Reach: []string{"C04.get.hit", "C04.get.expired"}, EngineOnly: true},
			{Pkg: "cache", Fn: "Harness_C04_age", Init: initCache, Reach: []string{"C04.age.end"}},
			{Pkg: "cache", Fn: "Harness_C04_hit_after_lock_wait", Init: initCache, Reach: []string{"C04.lockwait.hit", "C04.lockwait.expired"}, EngineOnly: true},
			{Pkg: "server", Fn: "Harness_MW_cache", Init: []string{"util", "store", "compress", "cache", "location", "upstream", "server"}, Reach: []string{"MW.second.hit"}},
			{Pkg: "cache", Fn: "Harness_C08_cacheable_restart", Init: initCache, Reach: []string{"C08.restart.expired", "C08.restart.restored"}},
		},
		Explanation: "One-step inductive check on the cache entry: for an arbitrary stored entry satisfying the invariant (status hit => expiredAt = createdAt + T) and an arbitrary later clock value (64-bit, free non-decreasing clock stub replacing cache.nowUnix), one Get() either serves the stored response within the lifetime or turns the entry to fetching; Cacheable re-establishes the invariant from any state. Real SSA of (*httpCache).Get/get/Cacheable/Age.",
		Assumptions: []string{
			"clock: every read returns an arbitrary value >= the previous one, 1 <= now < 2^62 (a clock stepping backwards is outside the claim)",
			"'obtained' is the clock value read by Cacheable when it stores the response",
			"sequential: one request at a time (concurrent histories are covered by the BMC checks of C01/C02/C20); contention on the entry lock is modelled as time passing at the moment the lock is obtained (Harness_C04_hit_after_lock_wait: the hit decision and the Age must hold for the clock at that moment, not for a sample taken before the wait)",
			"T >= 1 (any int64 for the hit/expiry step; T < 2^40 for the Age harness)",
		},
		Encoded: []string{"cache.(*httpCache).Get", "cache.(*httpCache).get", "cache.(*httpCache).Cacheable", "cache.(*httpCache).Age"},
		Bounds:  map[string]string{"T": "1..2^63-1", "clock": "64-bit, free", "history": "one step from an arbitrary state satisfying the invariant (inductive)"},
	})

	add(PropSpec{
		ID: "C06",
		Harnesses: []HarnessSpec{
			{Pkg: "server", Fn: "Harness_C06_injective", Init: initServer, Reach: []string{"C06.injective.end"}, EngineOnly: true},
			{Pkg: "server", Fn: "Harness_C06_methods", Init: initServer, Reach: []string{"C06.methods.end"}},
			{Pkg: "cache", Fn: "Harness_C06_lookup", Init: initCache, Reach: []string{"C06.lookup.end"}, EngineOnly: true},
			{Pkg: "cache", Fn: "Harness_C06_store_key", Init: initCache, Reach: []string{"C06.store-key.end"}},
			{Pkg: "server", Fn: "Harness_C06_middleware_isolation", Init: []string{"util", "store", "compress", "cache", "location", "upstream", "server"}, Reach: []string{"C06.mw.end", "C06.mw.different", "C06.mw.hit-again"}, EngineOnly: true},
		},
		Explanation: "Symbolic execution of the real server.getKey on two arbitrary requests (method, host, request-URI as symbolic byte strings): equal keys imply equal triples (injectivity), the key buffer is fresh and exactly sized. The shard lookup (real dispatcher, groupcache/lru and container/list from SSA) is run with the hash function uninterpreted, i.e. for every hash function and therefore every collision pattern, on two arbitrary keys with evictions (two zones of one entry).",
		Assumptions: []string{
			"method and Host contain no SP and the request-URI is non-empty (HTTP request-line syntax enforced by net/http before pike sees the request)",
			"lengths: method <= 2, host <= 2, URI <= 3 bytes for injectivity (the code is length-generic: copy + offsets); keys <= 2 bytes for the lookup history",
			"runtime.memhash is an uninterpreted function of the key bytes (deterministic within a process)",
			"sequential shard operations; the shard mutex discipline is under C20",
		},
		Encoded: []string{"server.getKey", "server.requestIsPass", "cache.(*dispatcher).GetHTTPCache", "cache.(*dispatcher).RemoveHTTPCache", "cache.(*dispatcher).getLRU", "cache.(*httpLRUCache).getCache", "cache.(*httpLRUCache).addCache", "cache.byteSliceToString"},
		Bounds:  map[string]string{"method": "<=2 bytes", "host": "<=2 bytes", "uri": "1..3 bytes", "lookup history": "k1,k1,k2,k1,remove k2,k2 on 2 zones x 1 entry, any hash"},
	})

	add(PropSpec{
		ID: "C07",
		Harnesses: []HarnessSpec{
			{Pkg: "cache", Fn: "Harness_C07_mark", Init: initCache, Reach: []string{"C07.mark.end"}, EngineOnly: true},
			{Pkg: "cache", Fn: "Harness_C07_get_step", Init: initCache, Reach: []string{"C07.within-period", "C07.after-period"}, EngineOnly: true},
			{Pkg: "cache", Fn: "Harness_C07_dispatcher_period", Init: initCache, Reach: []string{"C07.disp.end"}},
			{Pkg: "cache", Fn: "Harness_C08_hitforpass_restart", Init: initCache, Reach: []string{"C08.hfp.lapsed", "C08.hfp.restored"}},
			{Pkg: "server", Fn: "Harness_MW_pass_leaves_entry", Init: []string{"util", "store", "compress", "cache", "location", "upstream", "server"}, Reach: []string{"MW.pass.end", "MW.pass.nested"}},
		},
		BMC: []BMCSpec{
			{Name: "entry3", Pkg: "cache", Fn: "Harness_BMC_entry3", Init: initCache, Only: []string{"C07.", "every-thread-completes"}},
		},
		Explanation: "Inductive step on the hit-for-pass marker: for an arbitrary marker (set at any time, any period 1..2^40, with or without a stale response) and any later clock value, one Get() forwards the request (status hitForPass, no response, no queueing, marker untouched) while the period runs, and turns into the single probe (fetching) afterwards; the probe's outcome makes the key cacheable or marks it again. HitForPass(p) uses p seconds, 300 when p <= 0. At the middleware (real server.NewCache): a request forwarded as hit-for-pass, whatever its outcome and whatever another request did to the key while it was at the upstream (sequentialised: the other request runs inside its downstream call), leaves the entry byte-for-byte as it was, so the period does not slide with traffic and a straggler cannot undo a fresh hit. Concurrent bursts are decided by the BMC systems (C01/C02).",
		Assumptions: []string{"free non-decreasing 64-bit clock", "period < 2^40 seconds", "sequential step; a request that would be queued shows up as a blocked path (no-deadlock)", "with a store: faithful lazy-TTL store (C08)"},
		Encoded:     []string{"cache.(*httpCache).Get", "cache.(*httpCache).get", "cache.(*httpCache).HitForPass", "cache.(*httpCache).Cacheable", "cache.(*dispatcher).GetHitForPass", "cache.NewDispatcher", "server.NewCache"},
		Bounds:      map[string]string{"period": "1..2^40 s, configured value any int (<=0 => 300)", "clock": "64-bit free"},
	})

	add(PropSpec{
		ID: "C08",
		Harnesses: []HarnessSpec{
			{Pkg: "cache", Fn: "Harness_C08_overlapping_saves", Init: initCache, Reach: []string{"C08.overlap.end", "C08.overlap.nested"}},
			{Pkg: "cache", Fn: "Harness_C08_cacheable_restart", Init: initCache, Reach: []string{"C08.restart.expired", "C08.restart.restored", "C08.restart.uncommitted"}},
			{Pkg: "cache", Fn: "Harness_C08_hitforpass_restart", Init: initCache, Reach: []string{"C08.hfp.lapsed", "C08.hfp.restored"}},
			{Pkg: "cache", Fn: "Harness_C08_dispatcher_wiring", Init: initCache, Reach: []string{"C08.wiring.end"}},
			{Pkg: "cache", Fn: "Harness_C09_roundtrip", Init: initCache, Reach: []string{"C09.roundtrip.end"}},
		},
		Explanation: "Symbolic execution of pike's write-through / restore code modulo a faithful-store contract: after a cacheable fetch (or a hit-for-pass marking) the store holds exactly the bytes of the final in-memory state with the remaining lifetime as TTL; a brand-new entry for the same key (eviction, stop, or kill + restart) at any later clock value restores it unchanged while fresh (Age continuing from the original fetch), refetches after expiry, and refetches when the Set had not returned before the kill (the kill point is a symbolic commit flag). The record format itself is the C09 round trip.",
		Assumptions: []string{
			"faithful store contract: a Set that returned is durable and atomic, Delete removes, nothing is altered by the store; TTL enforcement is lazy (records may still be returned after their TTL, as with mongodb)",
			"badger/redis/mongodb themselves (crash consistency, re-open after kill, TTL) and main.go's signal handling are outside the claim (third-party storage engines / OS)",
			"T < 2^31 so that the time.Duration product does not overflow; free 64-bit clock",
		},
		Encoded: []string{"cache.(*httpCache).Cacheable", "cache.(*httpCache).HitForPass", "cache.(*httpCache).saveToStore", "cache.(*httpCache).initFromStore", "cache.(*httpCache).Bytes", "cache.(*httpCache).FromBytes", "cache.(*httpCache).Age", "cache.NewHTTPStoreCache", "cache.(*dispatcher).GetHTTPCache", "cache.(*dispatcher).RemoveHTTPCache"},
		Bounds:  map[string]string{"kill points": "before / after each store.Set returns (symbolic commit flag)", "T": "1..2^31"},
	})

	add(PropSpec{
		ID: "C09",
		Harnesses: []HarnessSpec{
			{Pkg: "cache", Fn: "Harness_C09_roundtrip", Init: initCache, Reach: []string{"C09.roundtrip.end"}},
			{Pkg: "cache", Fn: "Harness_C09_truncation", Init: initCache, Reach: []string{"C09.truncation.end"}},
			{Pkg: "cache", Fn: "Harness_C09_garbage", Init: initCache, Reach: []string{"C09.garbage.accepted", "C09.garbage.rejected"}},
			{Pkg: "cache", Fn: "Harness_C09_garbage_response", Init: initCache, Reach: []string{"C09.garbage-response.end"}},
		},
		Explanation: "Bounded symbolic execution of the real (*httpCache).Bytes/FromBytes and (*HTTPResponse).Bytes/FromBytes. Round trip: every entry within the bounds (timestamps, status code, min length as full 64-bit values; body bytes symbolic) decodes to an observably equal entry and re-encodes to the same bytes. Garbage: every byte string up to 64 bytes (content = an uninterpreted function of the position, length symbolic) decodes without panic and without an allocation sized by a decoded length. Truncation: every proper prefix of a valid record is rejected.",
		Assumptions: []string{
			"encoding/json Marshal/Unmarshal of http.Header and regexp String/Compile are uninterpreted inverse pairs (invalid UTF-8 in header values is rewritten by encoding/json and is outside the claim)",
			"bytes.Buffer.Next, binary.Read, binary.BigEndian.PutUint32/64, bytes.Join are engine intrinsics over the slice model",
			"round trip bounds: bodies <= 2 bytes each (4 thorough), compress profile name <= 1 byte (2 thorough), header sets {nil, empty, 3 concrete entries incl. multi-valued and non-ASCII}; status in the enum range 0..4, status code 0..999",
			"garbage bound: records <= 64 bytes (80 thorough), responses <= 48 bytes",
		},
		Encoded: []string{"cache.(*httpCache).Bytes", "cache.(*httpCache).FromBytes", "cache.(*HTTPResponse).Bytes", "cache.(*HTTPResponse).FromBytes", "cache.uint32ToBytes", "cache.uint64ToBytes", "cache.readUint32ToInt", "cache.readUint64ToInt64"},
		Bounds:  map[string]string{"garbage": "all byte strings of length 0..64 (80 thorough)", "round trip": "see assumptions", "truncation": "every cut offset of the records of the truncation harness"},
	})

	add(PropSpec{
		ID: "C10",
		Harnesses: []HarnessSpec{
			{Pkg: "cache", Fn: "Harness_C10_get_faulty_store", Init: initCache, Reach: []string{"C10.miss", "C10.restored"}},
			{Pkg: "cache", Fn: "Harness_C10_hitforpass_set_fault", Init: initCache, Reach: []string{"C10.hfp.end"}, EngineOnly: true},
			{Pkg: "cache", Fn: "Harness_C10_purge_delete_fault", Init: initCache, Reach: []string{"C10.purge.end"}},
			// slow store calls: a request that arrives while a purge's store.Delete is in progress
			{Pkg: "cache", Fn: "Harness_C18_purge_racing_request", Init: initCache, Reach: []string{"C18.race.end"}},
		},
		BMC: []BMCSpec{
			{Name: "store2", Pkg: "cache", Fn: "Harness_BMC_entry_store2", Init: initCache, Only: []string{"every-thread-completes", "no-panic", "C01.waiter"}},
			{Name: "store3", Pkg: "cache", Fn: "Harness_BMC_entry_store3", Init: initCache, Tier: "thorough", TimeoutSec: 3600, Only: []string{"every-thread-completes", "no-panic", "C01.waiter"}},
		},
		Explanation: "Every store answer is a solver variable: Get returns not-found, an error, data with an error, or an arbitrary byte string of up to 60 bytes (uninterpreted content, symbolic length); Set/Delete fail or succeed arbitrarily. The real (*httpCache).Get/get/initFromStore/FromBytes/Cacheable/HitForPass/saveToStore and (*dispatcher).RemoveHTTPCache are executed symbolically and the post-state must be a miss or a valid unexpired hit / hit-for-pass marker; a request that would park behind a fetch nobody performs shows up as a blocked path (no-deadlock). Waiters under store faults: the store-backed BMC system (two concurrent requests quick, three thorough, symbolic scheduler/clock/outcomes) has a store whose Set fails or succeeds per call as the solver chooses; every request must still complete.",
		Assumptions: []string{
			"records <= 60 bytes (a minimal hit record is 56 bytes, a hit-for-pass record 24)",
			"a store call that never returns is outside the claim (pike has no timeout of its own around the store); timeouts are modelled as calls that return an error",
			"encoding/json and regexp.Compile on record contents are free-outcome stubs (see C09)",
			"free non-decreasing 64-bit clock; the fault harnesses are sequential single requests; concurrent waiters are covered by the store-backed BMC system (Set faults only there: its Get returns a fixed expired record, Delete is not called)",
		},
		Encoded: []string{"cache.(*httpCache).Get", "cache.(*httpCache).get", "cache.(*httpCache).initFromStore", "cache.(*httpCache).FromBytes", "cache.(*httpCache).saveToStore", "cache.(*httpCache).Cacheable", "cache.(*httpCache).HitForPass", "cache.(*dispatcher).RemoveHTTPCache"},
		Bounds:  map[string]string{"record": "all byte strings of length 0..60", "faults": "every combination of Get/Set/Delete outcomes on the explored call sequence"},
	})

	codecAssume := []string{
		"codec contract (harness/compress/codec_stubs.go): an encoded payload is an abstract byte string of arbitrary length 1..6 that decodes (with the matching decoder) to exactly the bytes it was made from; decoding anything else fails; the real gzip/brotli/lz4/zstd/snappy implementations are outside the claim (C12)",
		"body length 0..8, minimum compress length any int >= 0, encoded lengths 1..6: all symbolic, so below/at/above the threshold are all covered",
		"content types text/html (matches the default filter) and image/png (does not); client Accept-Encoding from a fixed list of plain coding lists (q-values, '*' and tokens merely containing 'br'/'gzip' as a substring are outside the claim)",
	}
	add(PropSpec{
		ID: "C12",
		Harnesses: []HarnessSpec{
			{Pkg: "compress", Fn: "Harness_C12_results_not_shared", Init: []string{"util", "compress"}, Reach: []string{"C12.not-shared.end"}},
			{Pkg: "compress", Fn: "Harness_C12_gzip_wrapper", Init: []string{"util", "compress"}, Reach: []string{"C12.gzip.ok", "C12.gzip.write-error"}},
			{Pkg: "compress", Fn: "Harness_C12_brotli_wrapper", Init: []string{"util", "compress"}, Reach: []string{"C12.br.ok", "C12.br.write-error"}},
			{Pkg: "compress", Fn: "Harness_C12_service_levels", Init: []string{"util", "compress"}, Reach: []string{"C12.levels.end"}, EngineOnly: true},
			{Pkg: "compress", Fn: "Harness_C12_lz4_buffer", Init: []string{"util", "compress"}, Reach: []string{"C12.lz4.end"}, EngineOnly: true},
			{Pkg: "compress", Fn: "Harness_C12_dispatch", Init: []string{"util", "compress"}, Reach: []string{"C12.dispatch.end"}, EngineOnly: true},
		},
		Explanation: "Thin claim. The core of C12 - that the gzip, brotli, lz4, zstd and snappy encoders/decoders are exact inverses on every byte string and robust on malformed streams - is a statement about five third-party codecs whose loops grow with the input (match finders, entropy coders; table driven, tens of thousands of lines): far beyond what can be encoded and bit-blasted here, so it is NOT decided. What is decided, by symbolic execution of pike's own wrappers with the library writers/readers replaced by ghost-state stubs: the level handed to gzip.NewWriterLevel / brotli.NewWriterLevel for every int level (1..9 resp. 1..11 kept, everything else the documented default, never rejected), that the whole input is written exactly once, that the stream is finalised (Close) before the buffer is read, that a write error is returned, that doLZ4Decode decodes every valid block up to LZ4's 255x format bound, and that Decompress dispatches each documented encoding name to its decoder, identity for \"\" and an error otherwise.",
		Assumptions: []string{
			"NOT CLAIMED: round trips through the real codecs, compatibility with standard decoders, behaviour on malformed streams (third-party library code)",
			"writer stub contract: NewWriterLevel errs iff level outside [-2,9] (gzip); Write emits a partial stream, Close emits the trailer; a stream is complete iff it was read after Close",
			"lz4 stub contract: UncompressBlock succeeds on a valid block iff len(dst) >= decoded length; valid blocks exist for every decoded length <= 255*len(src)",
			"input <= 4 bytes symbolic (the wrappers do not look at the content)",
		},
		Encoded: []string{"compress.doGzip", "compress.gzipFn", "compress.doBrotli", "compress.brotliEncode", "compress.doLZ4Decode", "compress.(*compressSrv).Decompress", "compress.(*compressSrv).SetLevels", "compress.(*compressSrv).GetLevel", "compress.(*compressSrv).Gzip", "compress.(*compressSrv).Brotli", "compress.NewService"},
		Bounds:  map[string]string{"level": "every int", "lz4 decoded length": "0..255*len(src), len(src) 1..3"},
	})
	add(PropSpec{
		ID: "C13",
		Harnesses: []HarnessSpec{
			{Pkg: "cache", Fn: "Harness_C13_table", Init: initCache, Reach: []string{"C13.row1-stored-br", "C13.row2-stored-gzip", "C13.row3to6"}, EngineOnly: true},
			{Pkg: "cache", Fn: "Harness_C13_cacheable", Init: initCache, Reach: []string{"C13.cacheable.compressible", "C13.cacheable.not-compressible"}, EngineOnly: true},
		},
		Explanation: "Symbolic execution of the real (*HTTPResponse).getBodyByAcceptEncoding/shouldCompressed/GetRawBody/Compress and (*httpCache).Cacheable against the documented decision table written as an oracle in the harness: every subset of stored variants x every listed Accept-Encoding x symbolic body/threshold/encoded lengths x content type; cacheable compressible responses end up with both variants, compressed with the bestCompression profile, and later hits trigger no encoder call (ghost counter in the codec stubs).",
		Assumptions: codecAssume,
		Encoded:     []string{"cache.(*HTTPResponse).getBodyByAcceptEncoding", "cache.(*HTTPResponse).shouldCompressed", "cache.(*HTTPResponse).GetRawBody", "cache.(*HTTPResponse).Compress", "cache.(*httpCache).Cacheable", "compress.(*compressSrv).Gzip", "compress.(*compressSrv).Brotli", "compress.Get"},
		Bounds:      map[string]string{"body": "0..8 bytes (symbolic length)", "accept-encoding": "10 listed values", "variants": "all 7 non-empty subsets"},
	})
	add(PropSpec{
		ID: "C05",
		Harnesses: []HarnessSpec{
			// after restore from the store: the decoded record serves the same identity body as the original
			{Pkg: "cache", Fn: "Harness_C09_roundtrip", Init: initCache, Reach: []string{"C09.roundtrip.end"}},
			{Pkg: "server", Fn: "Harness_C05_responder", Init: initServer, Reach: []string{"C05.responder.end", "C05.responder.served"}},
			{Pkg: "cache", Fn: "Harness_C13_table", Init: initCache, Reach: []string{"C13.row3to6"}, EngineOnly: true},
			{Pkg: "cache", Fn: "Harness_C13_cacheable", Init: initCache, Reach: []string{"C13.cacheable.compressible"}, EngineOnly: true},
			{Pkg: "cache", Fn: "Harness_C05_new_response", Init: initCache, Reach: []string{"C05.new.end"}, EngineOnly: true},
			{Pkg: "cache", Fn: "Harness_C08_cacheable_restart", Init: initCache, Reach: []string{"C08.restart.restored"}},
		},
		Explanation: "Partial (modulo codec contracts): for every upstream encoding (identity, gzip, br, lz4, zst, snz), every stored-variant subset and every listed client Accept-Encoding, the body pike returns decodes (per the returned Content-Encoding) to exactly the upstream's decoded body, the encoding is one the client accepts or identity, the status code and end-to-end headers are preserved and the four hop/representation headers dropped, serving never mutates the stored entry, and an entry restored from the store is unaltered. Content-Length on the wire and the real codecs are outside the claim.",
		Assumptions: append(append([]string{}, codecAssume...), "Content-Length is written by elton/net/http after pike's code: not encodable", "the last hop (server.NewResponder + (*HTTPResponse).Fill on the real elton context) is decided for an identity client, four labels, ages -1/0/1/59 and a response with repeated header fields (all values must arrive, in order)", "waiters and hits receive the very response object the fetcher stored (BMC, C02)"),
		Encoded:     []string{"cache.NewHTTPResponse", "cache.cloneHeaderAndIgnore", "cache.(*HTTPResponse).getBodyByAcceptEncoding", "cache.(*HTTPResponse).GetRawBody", "cache.(*HTTPResponse).Compress", "compress.(*compressSrv).Decompress", "cache.(*HTTPResponse).Fill", "server.NewResponder"},
		Bounds:      map[string]string{"body": "0..8 bytes (symbolic length)", "upstream encodings": "6"},
	})

	add(PropSpec{
		ID: "C14",
		Harnesses: []HarnessSpec{
			{Pkg: "location", Fn: "Harness_C14_set_publishes_sorted", Init: []string{"util", "location"}, Reach: []string{"C14.set-publishes.end"}, EngineOnly: true},
			{Pkg: "location", Fn: "Harness_C14_match", Init: []string{"util", "location"}, Reach: []string{"C14.match.end"}},
			{Pkg: "location", Fn: "Harness_C14_select", Init: []string{"util", "location"}, Reach: []string{"C14.select.none", "C14.select.some"}},
		},
		Explanation: "Symbolic execution of the real (*Location).Match/getPriority and (*Locations).Set/Get (incl. the less closure handed to sort.Slice). Match: one location with 0-2 hosts and 0-2 prefixes, request host and URI, all arbitrary byte strings up to 2-3 bytes, against the oracle 'host list empty or contains the host exactly, prefix list empty or some prefix is a prefix of the URI'. Selection: three locations over a small universe (name, host constraint, prefix constraint) in every configuration order, the server's own location list, and the request: the result is nil iff nothing matches, otherwise an own matching location of the most specific class.",
		Assumptions: []string{"sort.Slice is modelled as an insertion sort driven by the real less closure (one order consistent with less; ties are covered by enumerating all configuration orders)", "string lengths: hosts/prefixes <= 2 bytes, request host/URI <= 3 bytes; selection over the universe {a,b} x {no host, h1} x {no prefix, /a}", "the 5xx answer and 'no upstream contacted' for an unmatched request is NewProxy's part (C15)"},
		Encoded:     []string{"location.(*Location).Match", "location.(*Location).getPriority", "location.(*Locations).Set", "location.(*Locations).Get", "location.(*Locations).GetLocations", "location.NewLocations"},
		Bounds:      map[string]string{"match": "strings <= 2-3 bytes symbolic", "select": "3 locations, 6144 configurations x requests"},
	})

	add(PropSpec{
		ID: "C15",
		Harnesses: []HarnessSpec{
			{Pkg: "server", Fn: "Harness_C15_proxy", Init: []string{"util", "store", "compress", "cache", "location", "upstream", "server"}, Reach: []string{"C15.upstream-error", "C15.upstream-ok"}},
			{Pkg: "server", Fn: "Harness_C15_not_found", Init: []string{"util", "store", "compress", "cache", "location", "upstream", "server"}, Reach: []string{"C15.no-location", "C15.no-upstream", "C15.found"}},
		},
		Explanation: "Partial: symbolic execution of the real NewProxy closure (with elton's Context, pike's location/upstream registries and the location header merging executed from source) for every combination of client conditional / Range / Accept-Encoding headers present or not, cache status fetching / hit-for-pass / passed, upstream Accept-Encoding option, path rewriter, and upstream outcome (response 200, or 304 / 206 when the RFC 7232/7233 precondition holds on what was actually forwarded, error, deadline exceeded). Decided: what the upstream stub receives (method, path, query, headers, configured additions, validators and Range withheld exactly for fetching requests), that the request is restored afterwards on every path, the response object handed on (status, headers minus the four dropped ones plus configured ones, body, compress settings), the context reset, 504 for a proxy timeout, 503/502 with no upstream contact when no location / upstream matches, and that a fetching request can never yield a 304 or 206.",
		Assumptions: []string{
			"the reverse proxy (httputil.ReverseProxy, hop-by-hop handling, body streaming) is a stub that snapshots the request and writes a response; upstream contract: status 304 only if If-None-Match/If-Modified-Since was forwarded, 206 only if Range was forwarded",
			"the rewrite language (regexp capture + strings.Replacer) and query merging (net/url) are library code: the rewriter is a stub replacing URL.Path, query additions are not exercised",
			"elton's Fresh computation (the client's own 304) is outside; what is decided is that the client's validators are back in the request when NewProxy returns",
			"location response headers that themselves add Cache-Control / Set-Cookie (operator override) are not exercised",
		},
		Encoded: []string{"server.NewProxy", "server.getCacheStatus", "server.setHTTPCacheMaxAge", "server.getCacheMaxAge", "server.setHTTPResp", "location.(*Location).AddRequestHeader", "location.(*Location).AddResponseHeader", "location.(*Location).mergeHeader", "location.Get", "upstream.Get", "cache.NewHTTPResponse"},
		Bounds:  map[string]string{"request headers": "each of If-None-Match, If-Modified-Since, Range, If-Range, Accept-Encoding present or absent", "outcomes": "200 / 304 / 206 / error / timeout"},
	})

	add(PropSpec{
		ID: "C16",
		Harnesses: []HarnessSpec{
			{Pkg: "compress", Fn: "Harness_C16_compress_reset", Init: []string{"util", "compress"}, Reach: []string{"C16.compress.end"}},
			{Pkg: "server", Fn: "Harness_C16_server_update", Init: initServer, Reach: []string{"C16.server.end"}},
			{Pkg: "server", Fn: "Harness_C16_servers_reset", Init: initServer, Reach: []string{"C16.servers.end"}, EngineOnly: true},
			{Pkg: "cache", Fn: "Harness_C16_dispatchers_reset", Init: initCache, Reach: []string{"C16.caches.end"}, EngineOnly: true},
			{Pkg: "upstream", Fn: "Harness_C19_reset", Init: []string{"util", "upstream"}, Reach: []string{"C19.reset.end"}, EngineOnly: true},
		},
		Explanation: "Partial: differential symbolic execution per registry. Compress profiles: for two successive symbolic configurations (profile p and bestCompression each present or not, each level set or unset with any int32 value) the levels of every profile a request can resolve equal those of a registry freshly built from the final configuration. Servers: a server updated in place (every option field symbolic, incl. unset) equals NewServer of the same option through GetCache/GetLocations/GetCompress; the server registry after Reset equals a fresh one and removed servers are closed. Caches: surviving dispatchers are the same objects (entries retained), removed ones gone, new ones present.",
		Assumptions: []string{
			"listening sockets, behaviour during an update under traffic and the file/etcd watcher are outside the claim (OS / network behaviour); of the upstream registry's replacement only the registry itself is decided (Harness_C19_reset: same name replaced, removed gone, old health checkers stopped, and an upstream that stays configured is found by a request at every health-check point inside Reset), not dials or the checker goroutines",
			"(*server).Close is a counting stub (elton.GracefulClose / net.Listener are not encodable); goroutines spawned by Reset are run to completion before the comparison",
			"profiles that the final configuration no longer names are not compared: config validation guarantees no server can resolve them (removed profiles are deliberately kept by pike, pinned by its tests)",
			"restart-only settings (log format, listener address) are not compared",
		},
		Encoded: []string{"compress.(*compressSrvs).Reset", "compress.(*compressSrvs).Get", "compress.NewServices", "compress.(*compressSrv).SetLevels", "compress.(*compressSrv).GetLevel", "server.NewServer", "server.(*server).Update", "server.(*servers).Reset", "server.(*servers).Get", "server.NewServers", "cache.(*dispatchers).Reset", "cache.NewDispatchers", "util.MapDelete"},
		Bounds:  map[string]string{"history": "two successive configurations (compress), one update (servers, caches)", "levels": "any int32", "min length": "any int"},
	})

	add(PropSpec{
		ID: "C17",
		Harnesses: []HarnessSpec{
			{Pkg: "server", Fn: "Harness_C17_apply_resolves", Init: initServer, Reach: []string{"C17.applied.end", "C17.applied.server"}},
			{Pkg: "config", Fn: "Harness_C17_validate", Init: []string{"util", "config"}, Reach: []string{"C17.accepted", "C17.rejected"}},
			{Pkg: "config", Fn: "Harness_C17_saved_fields", Init: []string{"util", "config"}, Reach: []string{"C17.saved-fields.end"}, EngineOnly: true},
		},
		Explanation: "Partial: symbolic execution of the real (*PikeConfig).Validate cross-reference loops on configurations with 1-2 upstreams, 1-2 locations, 0-1 caches, 0-1 compress profiles and a server with 0-2 location names, every name a symbolic letter (so dangling, duplicate and unset references all occur). Accepted => every location names an existing upstream and the server names existing locations, cache and compress profile; every closed, well-formed configuration is accepted. The reflection-driven struct validator is a stub whose contract (required / gt=0 / dive) is read from the struct tags of the current config.go at run time.",
		Assumptions: []string{
			"go-playground/validator implements its documented tags; only required, gt=0 and dive are modelled, string well-formedness tags (xName, xDuration, url, hostname, ...) are library predicates outside the claim",
			"'saving then reading returns the same configuration' and YAML quoting (gopkg.in/yaml.v2, reflection-driven) are outside the claim; only a structural obligation is decided (not by the solver: a scan of the current SSA and struct tags): every config field that pike's apply path reads has a yaml key of its own (not \"-\", not shared)",
			"that an accepted configuration resolves at run time: Harness_C17_apply_resolves applies two closed configurations in sequence through cache.ResetDispatchers / location.Reset / server.Reset (as main.update does; compress and upstream registries are C16's and C19's) and requires every configured server to find its dispatcher and a location; the request path itself is C15",
		},
		Encoded: []string{"config.(*PikeConfig).Validate", "server.(*servers).Reset", "server.(*server).Update", "cache.ResetDispatchers", "location.(*Locations).Set"},
		Bounds:  map[string]string{"configuration": "<=2 upstreams, <=2 locations, <=1 cache, <=1 compress profile, 1 server with <=2 location names; names are symbolic letters a..c or unset"},
	})

	add(PropSpec{
		ID: "C19",
		Harnesses: []HarnessSpec{
			{Pkg: "upstream", Fn: "Harness_C19_pick", Init: []string{"util", "upstream"}, Reach: []string{"C19.none-healthy", "C19.picked"}, EngineOnly: true},
			{Pkg: "upstream", Fn: "Harness_C19_roundrobin", Init: []string{"util", "upstream"}, Reach: []string{"C19.rr.end", "C19.rr.none"}, EngineOnly: true},
			{Pkg: "upstream", Fn: "Harness_C19_reset", Init: []string{"util", "upstream"}, Reach: []string{"C19.reset.end"}, EngineOnly: true},
		},
		Explanation: "Partial: symbolic execution of pike's NewUpstreamServer wiring and newTargetPicker together with the real source of vicanso/upstream's selection code (Add/AddBackup, Next, the four policies, GetAvailableUpstream, the primary/backup split), with 1-3 servers, each primary or backup, each health status (healthy / sick / ignored) chosen by the solver, and every policy name. The picker returns only healthy servers, a backup only when no primary is healthy, and the 503 error exactly when nothing is healthy; under round robin 7 sequential requests are shared so that counts differ by at most one; after a reload the group registered under a name is the new one with its health checker running and replaced/removed groups are stopped.",
		Assumptions: []string{
			"the health checker (TCP dial, HTTP ping, 5 s ticker, fail counters) is a stub that sets arbitrary statuses: 'promptly', 'settle time' and that traffic resumes by itself are only covered in the sense that the next pick after a status change sees it",
			"the reverse-proxy middleware and transports (elton/middleware, net/http, h2c) are not encodable; newProxyMid is stubbed",
			"round-robin evenness within a window that does not cross the uint32 wrap of the dependency's counter (the counter starts at 0 in the harness)",
			"url.Parse returns an opaque URL per address; math/rand.Uint32 is an arbitrary value",
		},
		Encoded: []string{"upstream.NewUpstreamServer", "upstream.newTargetPicker", "upstream.NewUpstreamServers", "upstream.(*upstreamServers).Reset", "upstream.(*upstreamServers).Get", "upstream.(*upstreamServer).Destroy"},
		Bounds:  map[string]string{"servers": "1..3 (2..3 for round robin)", "statuses": "all combinations (symbolic)", "policies": "first, random, roundRobin, leastconn, unset", "round-robin window": "7 calls"},
	})

	add(PropSpec{
		ID: "C18",
		Harnesses: []HarnessSpec{
			{Pkg: "cache", Fn: "Harness_C18_purge", Init: initCache, Reach: []string{"C18.named", "C18.unnamed", "C18.absent-cache", "C18.absent-key"}},
			{Pkg: "cache", Fn: "Harness_C18_others_untouched", Init: initCache, Reach: []string{"C18.others.end"}, EngineOnly: true},
			{Pkg: "cache", Fn: "Harness_C18_purge_during_fetch", Init: initCache, Reach: []string{"C18.racing.end"}},
			{Pkg: "cache", Fn: "Harness_C18_purge_racing_request", Init: initCache, Reach: []string{"C18.race.end"}},
			{Pkg: "cache", Fn: "Harness_C08_dispatcher_wiring", Init: initCache, Reach: []string{"C08.wiring.end"}},
			{Pkg: "cache", Fn: "Harness_C06_lookup", Init: initCache, Reach: []string{"C06.lookup.end"}, EngineOnly: true},
		},
		Explanation: "Sequential purge semantics on the real dispatchers/dispatcher/lru code with symbolic keys and an uninterpreted hash: after a named purge the next lookup yields a fresh entry whose Get() is fetching and the persisted copy is gone (also when the key is not resident, e.g. after a restart); an unnamed purge does so in every cache; purging an absent cache or key changes nothing; other keys keep their entries. A purge completing while a fetch is in flight: it takes only the shard lock (a blocking purge would show as no-deadlock), leaves the detached entry and its waiter list untouched, and later requests get a fresh entry (known finding F11 with a store). A request racing the purge of a persisted entry, placed at the points where the purge leaves the shard unlocked around its store Delete (sequentialised interleaving; the request is skipped where the shard lock would block it): after the purge returned, the next request is not answered from the purged entry.",
		Assumptions: []string{"faithful store (C08) or no store", "keys <= 2 bytes, two caches; hash uninterpreted", "sequential histories and one sequentialised racing request here (request atomic at the store call's boundaries); interleavings of one entry's operations under BMC"},
		Encoded:     []string{"cache.(*dispatchers).RemoveHTTPCache", "cache.(*dispatcher).RemoveHTTPCache", "cache.(*httpLRUCache).removeCache", "cache.(*dispatchers).Get", "cache.NewDispatchers"},
		Bounds:      map[string]string{"history": "populate, one purge of each kind, re-lookup", "keys": "<=2 bytes symbolic"},
	})

	add(PropSpec{
		ID: "C11",
		Harnesses: []HarnessSpec{
			// the size bound under concurrent hits rests on every access to a shard's lru (incl. the move-to-front of a lookup) holding the shard lock in write mode
			{Pkg: "cache", Fn: "Harness_C20_shard_discipline", Init: initCache, Reach: []string{"C20.shard-discipline.end"}, EngineOnly: true},
			{Pkg: "cache", Fn: "Harness_C11_arith", Init: initCache, Reach: []string{"C11.arith.end"}},
			{Pkg: "cache", Fn: "Harness_C11_lru", Init: initCache, Reach: []string{"C11.lru.end"}, EngineOnly: true},
		},
		Explanation: "Full-width bit-vector check of cache.NewDispatcher's shard arithmetic for every Size 1..2^63-1 at once (two paths: 8 or 128 shards), executed from the real SSA including newHTTPLRUCache and groupcache/lru.New.",
		Assumptions: []string{"Size >= 1 as enforced by config (validate:\"required,gt=0\")", "process memory in bytes is outside the claim (entry counts only)"},
		Encoded:     []string{"cache.NewDispatcher", "cache.newHTTPLRUCache"},
		Bounds:      map[string]string{"size": "all int64 >= 1"},
	})
	return reg
}

var _ = strings.HasPrefix
