package main

import (
	"strings"

	"golang.org/x/tools/go/ssa"
)

func (w *World) methodByFullName(pkgPath, full string) *ssa.Function {
	sp := w.ld.Src[pkgPath]
	if sp == nil {
		return nil
	}
	for _, m := range sp.Members {
		t, ok := m.(*ssa.Type)
		if !ok {
			continue
		}
		for _, ty := range []interface{}{t.Type()} {
			_ = ty
		}
		ms := w.ld.Prog.MethodSets.MethodSet(t.Type())
		for i := 0; i < ms.Len(); i++ {
			if f := w.ld.Prog.MethodValue(ms.At(i)); f != nil && f.String() == full {
				return f
			}
		}
		pms := w.ld.Prog.MethodSets.MethodSet(ptrTo(t.Type()))
		for i := 0; i < pms.Len(); i++ {
			if f := w.ld.Prog.MethodValue(pms.At(i)); f != nil && f.String() == full {
				return f
			}
		}
	}
	return nil
}

var initCache = []string{"util", "store", "compress", "cache"}
var initServer = []string{"util", "store", "compress", "cache", "location", "server"}

func propRegistry() map[string]PropSpec {
	reg := map[string]PropSpec{}
	add := func(p PropSpec) { reg[p.ID] = p }

	add(PropSpec{
		ID: "C03",
		Harnesses: []HarnessSpec{
			{Pkg: "server", Fn: "Harness_C03_maxage_quick", Init: []string{"util", "server"}, Tier: "quick", Reach: []string{"C03.maxage.end"}},
			{Pkg: "server", Fn: "Harness_C03_maxage_presence", Init: []string{"util", "server"}, Reach: []string{"C03.maxage.end"}},
			{Pkg: "server", Fn: "Harness_C03_maxage_twolines", Init: []string{"util", "server"}, Reach: []string{"C03.maxage.end"}},
			{Pkg: "server", Fn: "Harness_C03_age_overflow", Init: []string{"util", "server"}, Reach: []string{"C03.age.end"}},
			{Pkg: "server", Fn: "Harness_C03_structured", Init: []string{"util", "server"}, Reach: []string{"C03.struct.end"}},
			{Pkg: "server", Fn: "Harness_C03_maxage_thorough", Init: []string{"util", "server"}, Tier: "thorough", Reach: []string{"C03.maxage.end"}},
			{Pkg: "server", Fn: "Harness_C03_structured_thorough", Init: []string{"util", "server"}, Tier: "thorough", Reach: []string{"C03.struct.end"}},
		},
		Explanation: "Bounded symbolic execution of the real server.getCacheMaxAge (go/ssa of /repo's current source) against a short reference model written in the harness (differential oracle). Cache-Control, Age and Set-Cookie values are arbitrary ASCII byte strings up to the stated lengths (the length is case-split, the bytes are SMT variables); the regular expressions are taken from the real regexp.MustCompile literals and encoded as symbolic NFA simulations; strconv.Atoi is an engine intrinsic validated differentially. Every assertion instance is an SMT query (path condition AND NOT assertion) that z3 must answer unsat.",
		Assumptions: []string{
			"header bytes are ASCII (0x00-0x7f); non-ASCII bytes in Cache-Control/Age are outside the claim",
			"Cache-Control joined length <= 13 bytes quick / 20 thorough (one line), 9+9 (two lines); Age <= 3 bytes (9 in the Age harness); longer values, and therefore int64 overflow of the numbers, are outside the claim",
			"regexp semantics: leftmost-first, modelled for MatchString (any pattern without word boundaries) and FindStringSubmatch (prefix + one class+ capture); strconv.Atoi modelled per its documented behaviour (sign, digits, saturation)",
			"oracle = docs/cache-handler.md: Set-Cookie => 0; no Cache-Control => 0; contains no-cache/no-store/private (ASCII case-insensitive) => 0; first s-maxage=<digits> else first max-age=<digits>; minus Age when Age parses as a signed decimal",
		},
		Encoded: []string{"server.getCacheMaxAge"},
		Bounds:  map[string]string{"cache-control": "<=13 (quick) / <=20 (thorough) bytes, two-line variant 9+9", "age": "<=3 bytes; <=9 in the Age harness", "set-cookie": "<=1 byte (presence)"},
	})

	add(PropSpec{
		ID: "C04",
		Harnesses: []HarnessSpec{
			{Pkg: "cache", Fn: "Harness_C04_cacheable_establishes", Init: initCache, Reach: []string{"C04.cacheable.end"}, EngineOnly: true},
			{Pkg: "cache", Fn: "Harness_C04_get_step", Init: initCache, Reach: []string{"C04.get.hit", "C04.get.expired"}, EngineOnly: true},
			{Pkg: "cache", Fn: "Harness_C04_age", Init: initCache, Reach: []string{"C04.age.end"}},
		},
		Explanation: "One-step inductive check on the cache entry: for an arbitrary stored entry satisfying the invariant (status hit => expiredAt = createdAt + T) and an arbitrary later clock value (64-bit, free non-decreasing clock stub replacing cache.nowUnix), one Get() either serves the stored response within the lifetime or turns the entry to fetching; Cacheable re-establishes the invariant from any state. Real SSA of (*httpCache).Get/get/Cacheable/Age.",
		Assumptions: []string{
			"clock: every read returns an arbitrary value >= the previous one, 1 <= now < 2^62 (a clock stepping backwards is outside the claim)",
			"'obtained' is the clock value read by Cacheable when it stores the response",
			"sequential: one request at a time (concurrent histories are covered by the BMC checks of C01/C02/C20)",
			"T >= 1 (any int64 for the hit/expiry step; T < 2^40 for the Age harness)",
		},
		Encoded: []string{"cache.(*httpCache).Get", "cache.(*httpCache).get", "cache.(*httpCache).Cacheable", "cache.(*httpCache).Age"},
		Bounds:  map[string]string{"T": "1..2^63-1", "clock": "64-bit, free", "history": "one step from an arbitrary state satisfying the invariant (inductive)"},
	})

	add(PropSpec{
		ID: "C06",
		Harnesses: []HarnessSpec{
			{Pkg: "server", Fn: "Harness_C06_injective", Init: initServer, Reach: []string{"C06.injective.end"}, EngineOnly: true},
			{Pkg: "server", Fn: "Harness_C06_methods", Init: initServer, Reach: []string{"C06.methods.end"}},
			{Pkg: "cache", Fn: "Harness_C06_lookup", Init: initCache, Reach: []string{"C06.lookup.end"}, EngineOnly: true},
		},
		Explanation: "Symbolic execution of the real server.getKey on two arbitrary requests (method, host, request-URI as symbolic byte strings): equal keys imply equal triples (injectivity), the key buffer is fresh and exactly sized. The shard lookup (real dispatcher, groupcache/lru and container/list from SSA) is run with the hash function uninterpreted, i.e. for every hash function and therefore every collision pattern, on two arbitrary keys with evictions (two zones of one entry).",
		Assumptions: []string{
			"method and Host contain no SP and the request-URI is non-empty (HTTP request-line syntax enforced by net/http before pike sees the request)",
			"lengths: method <= 2, host <= 2, URI <= 3 bytes for injectivity (the code is length-generic: copy + offsets); keys <= 2 bytes for the lookup history",
			"runtime.memhash is an uninterpreted function of the key bytes (deterministic within a process)",
			"sequential shard operations; the shard mutex discipline is under C20",
		},
		Encoded: []string{"server.getKey", "server.requestIsPass", "cache.(*dispatcher).GetHTTPCache", "cache.(*dispatcher).RemoveHTTPCache", "cache.(*dispatcher).getLRU", "cache.(*httpLRUCache).getCache", "cache.(*httpLRUCache).addCache", "cache.byteSliceToString"},
		Bounds:  map[string]string{"method": "<=2 bytes", "host": "<=2 bytes", "uri": "1..3 bytes", "lookup history": "k1,k1,k2,k1,remove k2,k2 on 2 zones x 1 entry, any hash"},
	})

	add(PropSpec{
		ID: "C09",
		Harnesses: []HarnessSpec{
			{Pkg: "cache", Fn: "Harness_C09_roundtrip", Init: initCache, Reach: []string{"C09.roundtrip.end"}},
			{Pkg: "cache", Fn: "Harness_C09_truncation", Init: initCache, Reach: []string{"C09.truncation.end"}},
			{Pkg: "cache", Fn: "Harness_C09_garbage", Init: initCache, Reach: []string{"C09.garbage.accepted", "C09.garbage.rejected"}},
			{Pkg: "cache", Fn: "Harness_C09_garbage_response", Init: initCache, Reach: []string{"C09.garbage-response.end"}},
		},
		Explanation: "Bounded symbolic execution of the real (*httpCache).Bytes/FromBytes and (*HTTPResponse).Bytes/FromBytes. Round trip: every entry within the bounds (timestamps, status code, min length as full 64-bit values; body bytes symbolic) decodes to an observably equal entry and re-encodes to the same bytes. Garbage: every byte string up to 64 bytes (content = an uninterpreted function of the position, length symbolic) decodes without panic and without an allocation sized by a decoded length. Truncation: every proper prefix of a valid record is rejected.",
		Assumptions: []string{
			"encoding/json Marshal/Unmarshal of http.Header and regexp String/Compile are uninterpreted inverse pairs (invalid UTF-8 in header values is rewritten by encoding/json and is outside the claim)",
			"bytes.Buffer.Next, binary.Read, binary.BigEndian.PutUint32/64, bytes.Join are engine intrinsics over the slice model",
			"round trip bounds: bodies <= 2 bytes each (4 thorough), compress profile name <= 1 byte (2 thorough), header sets {nil, empty, 3 concrete entries incl. multi-valued and non-ASCII}; status in the enum range 0..4, status code 0..999",
			"garbage bound: records <= 64 bytes (80 thorough), responses <= 48 bytes",
		},
		Encoded: []string{"cache.(*httpCache).Bytes", "cache.(*httpCache).FromBytes", "cache.(*HTTPResponse).Bytes", "cache.(*HTTPResponse).FromBytes", "cache.uint32ToBytes", "cache.uint64ToBytes", "cache.readUint32ToInt", "cache.readUint64ToInt64"},
		Bounds:  map[string]string{"garbage": "all byte strings of length 0..64 (80 thorough)", "round trip": "see assumptions", "truncation": "every cut offset of the records of the truncation harness"},
	})

	add(PropSpec{
		ID: "C11",
		Harnesses: []HarnessSpec{
			{Pkg: "cache", Fn: "Harness_C11_arith", Init: initCache, Reach: []string{"C11.arith.end"}},
			{Pkg: "cache", Fn: "Harness_C11_lru", Init: initCache, Reach: []string{"C11.lru.end"}, EngineOnly: true},
		},
		Explanation: "Full-width bit-vector check of cache.NewDispatcher's shard arithmetic for every Size 1..2^63-1 at once (two paths: 8 or 128 shards), executed from the real SSA including newHTTPLRUCache and groupcache/lru.New.",
		Assumptions: []string{"Size >= 1 as enforced by config (validate:\"required,gt=0\")", "process memory in bytes is outside the claim (entry counts only)"},
		Encoded:     []string{"cache.NewDispatcher", "cache.newHTTPLRUCache"},
		Bounds:      map[string]string{"size": "all int64 >= 1"},
	})
	return reg
}

var _ = strings.HasPrefix
