package main

// Long-lived SMT solver processes (z3 -in / z3-new -in / cvc5 --incremental)
// driven with push/pop, plus one-shot file queries for heavy BMC formulas.

import (
	"bufio"
	"fmt"
	"io"
	"os"
	"os/exec"
	"path/filepath"
	"strconv"
	"strings"
	"sync"
	"sync/atomic"
	"time"
)

type Solver struct {
	Kind   string
	cmd    *exec.Cmd
	stdin  io.WriteCloser
	out    *bufio.Reader
	NQ     int
	NSat   int
	NUnsat int
	NUnk   int
	Time   time.Duration
	dead   bool
	tmo    int
	// cross-solver sampling (reset-mode queries only): every crossEvery-th query is also put to a
	// second solver; sat/unsat answers must agree
	cross      *Solver
	crossKind  string
	crossEvery int
	crossStats *CrossStats
}

// CrossStats is shared by the solvers of a pool.
type CrossStats struct {
	mu        sync.Mutex
	seq       int64
	Kind      string
	Compared  int
	Agreed    int
	Undecided int // the second solver answered unknown / error / timeout
	Disagree  []string
}

func solverArgs(kind string, timeoutMs int) (string, []string) {
	switch kind {
	case "z3":
		return "/usr/bin/z3", []string{"-in", "-t:" + strconv.Itoa(timeoutMs)}
	case "z3-new":
		return "z3-new", []string{"-in", "-t:" + strconv.Itoa(timeoutMs)}
	case "cvc5":
		return "cvc5", []string{"--incremental", "--produce-models", "--lang=smt2", "--tlimit-per=" + strconv.Itoa(timeoutMs)}
	}
	panic("unknown solver " + kind)
}

func NewSolver(kind string, timeoutMs int) (*Solver, error) {
	bin, args := solverArgs(kind, timeoutMs)
	cmd := exec.Command(bin, args...)
	in, err := cmd.StdinPipe()
	if err != nil {
		return nil, err
	}
	outp, err := cmd.StdoutPipe()
	if err != nil {
		return nil, err
	}
	cmd.Stderr = cmd.Stdout
	if err := cmd.Start(); err != nil {
		return nil, err
	}
	s := &Solver{Kind: kind, cmd: cmd, stdin: in, out: bufio.NewReaderSize(outp, 1<<20), tmo: timeoutMs}
	if kind == "cvc5" {
		io.WriteString(in, "(set-logic ALL)\n")
	}
	io.WriteString(in, "(set-option :produce-models true)\n")
	return s, nil
}

func (s *Solver) Close() {
	if s.cross != nil {
		c := s.cross
		s.cross = nil
		c.Close()
	}
	if s == nil || s.dead {
		return
	}
	s.dead = true
	s.stdin.Close()
	done := make(chan struct{})
	go func() { s.cmd.Wait(); close(done) }()
	select {
	case <-done:
	case <-time.After(2 * time.Second):
		s.cmd.Process.Kill()
	}
}

type CheckResult struct {
	Res   string // sat | unsat | unknown | error
	Model map[string]uint64
	Raw   string
	Dur   time.Duration
}

// Check decides the conjunction of conds. Any "(error" line makes the result "error".
func (s *Solver) Check(tb *TB, conds []*Term, wantModel bool) CheckResult {
	p := NewPrinter(tb)
	for _, c := range conds {
		p.Assert(c)
	}
	return s.CheckText(tb, p, wantModel)
}

func (s *Solver) checkReset(tb *TB, base, p *Printer, wantModel bool) CheckResult {
	r := s.checkText(tb, p, wantModel, "(reset)\n(set-option :produce-models true)\n"+base.String(), "")
	if s.crossEvery > 0 && (r.Res == "sat" || r.Res == "unsat") && atomic.AddInt64(&s.crossStats.seq, 1)%int64(s.crossEvery) == 0 {
		s.crossCheck(base.String()+p.String(), r.Res)
	}
	return r
}

func (s *Solver) crossCheck(text, res string) {
	if s.cross == nil || s.cross.dead {
		c, err := NewSolver(s.crossKind, 20000)
		if err != nil {
			return
		}
		s.cross = c
	}
	pre := "(reset)\n(set-option :produce-models true)\n"
	if s.crossKind == "cvc5" {
		pre = "(reset)\n(set-logic ALL)\n"
	}
	if _, err := io.WriteString(s.cross.stdin, pre+text+"(check-sat)\n(echo \"CHK\")\n"); err != nil {
		s.cross.dead = true
		return
	}
	lines, err := s.cross.readUntil("CHK")
	other := "error"
	if err == nil {
		for _, l := range lines {
			l = strings.TrimSpace(l)
			if l == "sat" || l == "unsat" || l == "unknown" {
				other = l
			}
		}
		if strings.Contains(strings.Join(lines, "\n"), "(error") {
			other = "error"
		}
	} else {
		s.cross.dead = true
	}
	st := s.crossStats
	st.mu.Lock()
	defer st.mu.Unlock()
	st.Compared++
	switch {
	case other == res:
		st.Agreed++
	case other == "sat" || other == "unsat":
		f := filepath.Join(os.TempDir(), fmt.Sprintf("symgo-disagree-%d-%d.smt2", os.Getpid(), len(st.Disagree)))
		if d := os.Getenv("SYMGO_DISAGREE_DIR"); d != "" {
			os.MkdirAll(d, 0o755)
			f = filepath.Join(d, fmt.Sprintf("disagree-%d.smt2", len(st.Disagree)))
		}
		os.WriteFile(f, []byte(text+"(check-sat)\n"), 0o644)
		st.Disagree = append(st.Disagree, fmt.Sprintf("z3 4.8.12 says %s, %s says %s: %s", res, s.crossKind, other, f))
	default:
		st.Undecided++
	}
}

func (s *Solver) CheckText(tb *TB, p *Printer, wantModel bool) CheckResult {
	return s.checkText(tb, p, wantModel, "(push 1)\n", "(pop 1)\n")
}

func (s *Solver) checkText(tb *TB, p *Printer, wantModel bool, pre, post string) CheckResult {
	t0 := time.Now()
	var q strings.Builder
	q.WriteString(pre)
	q.WriteString(p.String())
	q.WriteString("(check-sat)\n(echo \"CHK\")\n")
	if _, err := io.WriteString(s.stdin, q.String()); err != nil {
		s.dead = true
		return CheckResult{Res: "error", Raw: err.Error()}
	}
	lines, err := s.readUntil("CHK")
	res := "error"
	raw := strings.Join(lines, "\n")
	if err == nil {
		for _, l := range lines {
			l = strings.TrimSpace(l)
			if l == "sat" || l == "unsat" || l == "unknown" {
				res = l
			}
		}
		if strings.Contains(raw, "(error") {
			res = "error"
		}
	}
	cr := CheckResult{Res: res, Raw: raw}
	if res == "sat" && wantModel {
		cr.Model = map[string]uint64{}
		var names []string
		for _, v := range p.AllVars() {
			names = append(names, smtName(v.Name))
		}
		// chunk get-value requests
		for i := 0; i < len(names); i += 200 {
			j := i + 200
			if j > len(names) {
				j = len(names)
			}
			io.WriteString(s.stdin, "(get-value ("+strings.Join(names[i:j], " ")+"))\n(echo \"GV\")\n")
			ls, err := s.readUntil("GV")
			if err != nil {
				break
			}
			parseValues(strings.Join(ls, " "), cr.Model)
		}
		// uninterpreted applications: ask for the value of each application node
		var apps []*Term
		for id, nm := range p.defined {
			_ = id
			_ = nm
		}
		for _, t := range collectApps(p) {
			apps = append(apps, t)
		}
		memo := map[int]uint64{}
		for _, t := range apps {
			nm, _ := p.lookup(t.ID)
			io.WriteString(s.stdin, "(get-value ("+nm+"))\n(echo \"GV\")\n")
			ls, err := s.readUntil("GV")
			if err != nil {
				break
			}
			m := map[string]uint64{}
			parseValues(strings.Join(ls, " "), m)
			key := t.Name + "("
			for _, a := range t.Args {
				key += strconv.FormatUint(tb.Eval(a, cr.Model, memo), 10) + ","
			}
			key += ")"
			for _, v := range m {
				cr.Model[key] = v
				// byte arrays modelled as uninterpreted functions: also report name[i]
				if strings.Contains(t.Name, "@bytes") && len(t.Args) == 1 {
					idx := tb.Eval(t.Args[0], cr.Model, memo)
					base := t.Name[:strings.Index(t.Name, "@bytes")]
					cr.Model[fmt.Sprintf("%s[%d]", base, idx)] = v
				}
			}
		}
	}
	io.WriteString(s.stdin, post)
	cr.Dur = time.Since(t0)
	if cr.Dur > 300*time.Millisecond && os.Getenv("SYMGO_DEBUG") != "" {
		fmt.Fprintf(os.Stderr, "  slow query %v res=%s bytes=%d\n", cr.Dur, res, len(p.String()))
	}
	s.NQ++
	s.Time += cr.Dur
	switch res {
	case "sat":
		s.NSat++
	case "unsat":
		s.NUnsat++
	default:
		s.NUnk++
	}
	return cr
}

// Session keeps the solver in step with one execution path: path-condition conjuncts are
// asserted once (incrementally); each query pushes only its extra terms.
type Session struct {
	s    *Solver
	tb   *TB
	p    *Printer
	open bool
}

func (s *Solver) NewSession(tb *TB) *Session { return &Session{s: s, tb: tb} }

// The solver is used non-incrementally: every query is sent after a (reset), so that z3 applies
// its tactic-based bit-vector pipeline (measured 3-10x faster than push/pop mode on these queries);
// the process stays alive, which avoids the start-up cost.
func (ss *Session) Begin() {
	ss.p = NewPrinter(ss.tb)
	ss.open = true
}

func (ss *Session) End() { ss.open = false }

func (ss *Session) Assert(t *Term) {
	ss.p.Assert(t)
}

var dumpN int

func (ss *Session) Check(extra []*Term, wantModel bool) CheckResult {
	c := ss.p.Child()
	for _, e := range extra {
		c.Assert(e)
	}
	r := ss.s.checkReset(ss.tb, ss.p, c, wantModel)
	if d := os.Getenv("SYMGO_DUMP"); d != "" && r.Dur > 200*time.Millisecond {
		dumpN++
		os.WriteFile(fmt.Sprintf("%s/q%d_%d_%s.smt2", d, os.Getpid(), dumpN, r.Res), []byte(ss.p.String()+c.String()+"(check-sat)\n"), 0o644)
	}
	return r
}

func collectApps(p *Printer) []*Term {
	var out []*Term
	seen := map[int]bool{}
	var walk func(t *Term)
	walk = func(t *Term) {
		if seen[t.ID] {
			return
		}
		seen[t.ID] = true
		for _, a := range t.Args {
			walk(a)
		}
		if t.Op == OpApp {
			out = append(out, t)
		}
	}
	for q := p; q != nil; q = q.parent {
		for _, r := range q.roots {
			walk(r)
		}
	}
	return out
}

func (s *Solver) readUntil(marker string) ([]string, error) {
	var lines []string
	for {
		l, err := s.out.ReadString('\n')
		if err != nil {
			s.dead = true
			return lines, err
		}
		l = strings.TrimRight(l, "\r\n")
		t := strings.Trim(strings.TrimSpace(l), "\"")
		if t == marker {
			return lines, nil
		}
		lines = append(lines, l)
	}
}

// parseValues parses "((name #x..) (name #b..) (name true))" into m.
func parseValues(s string, m map[string]uint64) {
	// tokenise
	var toks []string
	i := 0
	for i < len(s) {
		c := s[i]
		switch {
		case c == '(' || c == ')':
			toks = append(toks, string(c))
			i++
		case c == ' ' || c == '\n' || c == '\t':
			i++
		case c == '|':
			j := strings.IndexByte(s[i+1:], '|')
			if j < 0 {
				j = len(s) - i - 2
			}
			toks = append(toks, s[i:i+j+2])
			i += j + 2
		default:
			j := i
			for j < len(s) && s[j] != '(' && s[j] != ')' && s[j] != ' ' && s[j] != '\n' {
				j++
			}
			toks = append(toks, s[i:j])
			i = j
		}
	}
	// pairs: "(" name value ")"
	for k := 0; k+3 < len(toks); k++ {
		if toks[k] == "(" && toks[k+1] != "(" && toks[k+2] != "(" && toks[k+2] != ")" && toks[k+3] == ")" {
			name := strings.Trim(toks[k+1], "|")
			v := toks[k+2]
			var val uint64
			switch {
			case v == "true":
				val = 1
			case v == "false":
				val = 0
			case strings.HasPrefix(v, "#x"):
				val, _ = strconv.ParseUint(v[2:], 16, 64)
			case strings.HasPrefix(v, "#b"):
				val, _ = strconv.ParseUint(v[2:], 2, 64)
			default:
				continue
			}
			m[name] = val
		} else if toks[k] == "(" && toks[k+1] != "(" && toks[k+2] == "(" && k+6 < len(toks) && toks[k+3] == "_" {
			// (name (_ bv123 64))
			name := strings.Trim(toks[k+1], "|")
			if strings.HasPrefix(toks[k+4], "bv") {
				val, _ := strconv.ParseUint(toks[k+4][2:], 10, 64)
				m[name] = val
			}
		}
	}
}

// ---- one-shot file queries (heavy formulas, explicit logic) ----

type OneShot struct {
	Res string
	Out string
	Dur time.Duration
}

func RunOneShot(kind string, text string, timeoutSec int, scratch string) OneShot {
	f, err := os.CreateTemp(scratch, "q*.smt2")
	if err != nil {
		return OneShot{Res: "error", Out: err.Error()}
	}
	f.WriteString(text)
	f.Close()
	defer os.Remove(f.Name())
	var bin string
	var args []string
	switch kind {
	case "z3":
		bin, args = "/usr/bin/z3", []string{"-T:" + strconv.Itoa(timeoutSec), "-memory:6000", f.Name()}
	case "z3-new":
		bin, args = "z3-new", []string{"-T:" + strconv.Itoa(timeoutSec), "-memory:6000", f.Name()}
	case "cvc5":
		bin, args = "cvc5", []string{"--produce-models", "--tlimit=" + strconv.Itoa(timeoutSec*1000), f.Name()}
	}
	t0 := time.Now()
	out, _ := exec.Command(bin, args...).CombinedOutput()
	res := "unknown"
	so := string(out)
	first := strings.TrimSpace(strings.SplitN(so, "\n", 2)[0])
	if first == "sat" || first == "unsat" {
		res = first
	}
	if res == "unknown" && strings.Contains(so, "(error") {
		res = "error"
	}
	return OneShot{Res: res, Out: so, Dur: time.Since(t0)}
}

// SolverPool hands out solvers to workers.
type SolverPool struct {
	mu   sync.Mutex
	all  []*Solver
	kind string
	tmo  int
	Cross      *CrossStats
	crossEvery int
}

func NewSolverPool(kind string, timeoutMs int) *SolverPool {
	return &SolverPool{kind: kind, tmo: timeoutMs}
}

// EnableCross: every n-th reset-mode query of every solver of the pool is also decided by a second solver.
func (sp *SolverPool) EnableCross(kind string, every int) {
	sp.Cross = &CrossStats{Kind: kind}
	sp.crossEvery = every
}

func (sp *SolverPool) New() *Solver {
	s, err := NewSolver(sp.kind, sp.tmo)
	if err != nil {
		panic(fmt.Sprintf("cannot start solver %s: %v", sp.kind, err))
	}
	if sp.Cross != nil {
		s.crossKind, s.crossEvery, s.crossStats = sp.Cross.Kind, sp.crossEvery, sp.Cross
	}
	sp.mu.Lock()
	sp.all = append(sp.all, s)
	sp.mu.Unlock()
	return s
}

func (sp *SolverPool) CloseAll() {
	sp.mu.Lock()
	defer sp.mu.Unlock()
	for _, s := range sp.all {
		s.Close()
	}
}

func (sp *SolverPool) Stats() (nq, nsat, nunsat, nunk int, dur time.Duration) {
	sp.mu.Lock()
	defer sp.mu.Unlock()
	for _, s := range sp.all {
		nq += s.NQ
		nsat += s.NSat
		nunsat += s.NUnsat
		nunk += s.NUnk
		dur += s.Time
	}
	return
}
